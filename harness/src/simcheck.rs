//! C09 (determinism of the runners) and C20 (derive macros), checked on the
//! real crates: derive-macro agent sets, sim_runner / market_sim_runner, child
//! processes, both progress-bar branches, and a hand-written loop.
use crate::Sm;
use bourse_de::agents::{Agent, AgentSet, MarketAgent, MarketAgentSet, MomentumAgent, MomentumMarketAgent, MomentumParams, NoiseAgent,
                        NoiseAgentParams, NoiseMarketAgent, RandomAgents, RandomMarketAgents};
use bourse_de::types::Side;
use bourse_de::{market_sim_runner, sim_runner, Env, MarketEnv};
use rand::RngCore;
use rand_xoshiro::rand_core::SeedableRng;
use rand_xoshiro::Xoroshiro128StarStar;
use std::cell::RefCell;
use std::rc::Rc;

#[derive(AgentSet)]
pub struct SetA { pub r: RandomAgents, pub n: NoiseAgent, pub m: MomentumAgent }
#[derive(AgentSet)]
pub struct SetB { pub zeta: NoiseAgent, pub _alpha: NoiseAgent, pub inner: SetA }
#[derive(MarketAgentSet)]
pub struct MSetA { pub r: RandomMarketAgents, pub n: NoiseMarketAgent, pub m: MomentumMarketAgent, pub _n2: NoiseMarketAgent }

fn fnv(h: &mut u64, x: u64) { for b in x.to_le_bytes() { *h ^= b as u64; *h = h.wrapping_mul(0x100000001b3); } }

pub fn digest_env(env: &Env) -> u64 {
    let mut h = 0xcbf29ce484222325u64;
    for o in env.get_orders() { for x in [bool::from(o.side) as u64, u8::from(o.status) as u64, o.arr_time, o.end_time, o.vol as u64, o.start_vol as u64, o.price as u64, o.trader_id as u64, o.order_id as u64] { fnv(&mut h, x); } }
    for t in env.get_trades() { for x in [t.t, bool::from(t.side) as u64, t.price as u64, t.vol as u64, t.active_order_id as u64, t.passive_order_id as u64] { fnv(&mut h, x); } }
    let hist = env.get_level_2_data_history();
    for v in [&hist.prices.0, &hist.prices.1, &hist.volumes.0, &hist.volumes.1] { for x in v { fnv(&mut h, *x as u64); } }
    for i in 0..10 { for v in [&hist.volumes_at_levels.0[i], &hist.orders_at_levels.0[i], &hist.volumes_at_levels.1[i], &hist.orders_at_levels.1[i]] { for x in v { fnv(&mut h, *x as u64); } } }
    for x in env.get_trade_vols() { fnv(&mut h, *x as u64); }
    fnv(&mut h, env.get_orderbook().get_time());
    h
}

pub fn digest_menv(env: &MarketEnv<2>) -> u64 {
    let mut h = 0xcbf29ce484222325u64;
    for a in 0..2 {
        for o in env.get_orders(a) { for x in [bool::from(o.side) as u64, u8::from(o.status) as u64, o.arr_time, o.end_time, o.vol as u64, o.start_vol as u64, o.price as u64, o.trader_id as u64, o.order_id as u64] { fnv(&mut h, x); } }
        for t in env.get_trades(a) { for x in [t.t, t.price as u64, t.vol as u64, t.active_order_id as u64, t.passive_order_id as u64] { fnv(&mut h, x); } }
        let hist = env.get_level_2_data_history(a);
        for v in [&hist.prices.0, &hist.prices.1, &hist.volumes.0, &hist.volumes.1] { for x in v { fnv(&mut h, *x as u64); } }
        for i in 0..10 { for v in [&hist.volumes_at_levels.0[i], &hist.orders_at_levels.0[i], &hist.volumes_at_levels.1[i], &hist.orders_at_levels.1[i]] { for x in v { fnv(&mut h, *x as u64); } } }
        for x in env.get_trade_vols(a) { fnv(&mut h, *x as u64); }
    }
    h
}

pub struct Cfg { pub seed: u64, pub steps: u64, pub step_size: u64, pub tick: u32, pub market: bool, pub shape: u8 }

pub fn cfg(i: u64, base: u64) -> Cfg {
    let mut g = Sm(base.wrapping_mul(0x9E3779B97F4A7C15) ^ (i + 1).wrapping_mul(0xD6E8FEB86659FD93));
    // boundary seeds first: 0, 1 and the all-ones word; then random seeds of every magnitude
    Cfg { seed: match i { 0 => 0, 1 => 1, 2 => u64::MAX, _ => g.next() >> g.below(60) }, steps: { let r = g.below(20); if r < 12 { 1 + g.below(47) } else if r < 17 { 200 + g.below(600) } else { 1000 + g.below(4000) } }, step_size: *g.pick(&[100u64, 1000, 1_000_000]), tick: 1 + g.below(10) as u32, market: g.chance(1, 3), shape: g.below(2) as u8 }
}

fn noise(tick: u32, first: u32, g: &mut Sm) -> NoiseAgentParams {
    NoiseAgentParams { tick_size: tick, p_limit: *g.pick(&[0.3f32, 0.7, 1.0]), p_market: *g.pick(&[0.0f32, 0.2, 0.5]), p_cancel: *g.pick(&[0.1f32, 0.5]),
                       trade_vol: 1 + first % 7 + g.below(20) as u32, price_dist_mu: 0.0, price_dist_sigma: *g.pick(&[1.0f64, 10.0]) }
}
fn mom(tick: u32, g: &mut Sm) -> MomentumParams {
    MomentumParams { tick_size: tick, p_cancel: 0.2, trade_vol: 1 + g.below(10) as u32, decay: *g.pick(&[0.5f64, 1.0]), demand: *g.pick(&[5.0f64, 50.0]), scale: 0.5,
                     order_ratio: *g.pick(&[1.0f64, 2.0]), price_dist_mu: 0.0, price_dist_sigma: 1.0 }
}

/// mode: 0 sim_runner(progress off), 1 sim_runner(progress on), 2 hand-written loop
pub fn run_cfg(c: &Cfg, mode: u8) -> u64 {
    let mut g = Sm(c.seed ^ 0xABCD);
    if !c.market {
        let mut env = Env::new(0, c.tick, c.step_size, true);
        let a = SetA { r: RandomAgents::new(4, (10, 30), (1, 20), c.tick, 0.6), n: NoiseAgent::new(10, 5, noise(c.tick, 10, &mut g)), m: MomentumAgent::new(20, 4, mom(c.tick, &mut g)) };
        if c.shape == 0 {
            let mut agents = a;
            match mode {
                0 => sim_runner(&mut env, &mut agents, c.seed, c.steps, false),
                1 => sim_runner(&mut env, &mut agents, c.seed, c.steps, true),
                _ => { let mut rng = Xoroshiro128StarStar::seed_from_u64(c.seed); for _ in 0..c.steps { agents.update(&mut env, &mut rng); env.step(&mut rng); } }
            }
        } else {
            let mut agents = SetB { zeta: NoiseAgent::new(30, 3, noise(c.tick, 30, &mut g)), _alpha: NoiseAgent::new(40, 3, noise(c.tick, 40, &mut g)), inner: a };
            match mode {
                0 => sim_runner(&mut env, &mut agents, c.seed, c.steps, false),
                1 => sim_runner(&mut env, &mut agents, c.seed, c.steps, true),
                _ => { let mut rng = Xoroshiro128StarStar::seed_from_u64(c.seed); for _ in 0..c.steps { agents.update(&mut env, &mut rng); env.step(&mut rng); } }
            }
        }
        digest_env(&env)
    } else {
        let mut env = MarketEnv::<2>::new(0, [c.tick, 1 + c.tick % 5], c.step_size, true);
        let mut agents = MSetA { r: RandomMarketAgents::new(0, 4, (10, 30), (1, 20), c.tick, 0.6), n: NoiseMarketAgent::new(1, 10, 5, noise(1 + c.tick % 5, 10, &mut g)),
                                 m: MomentumMarketAgent::new(20, 4, 0, mom(c.tick, &mut g)), _n2: NoiseMarketAgent::new(0, 30, 4, noise(c.tick, 30, &mut g)) };
        match mode {
            0 => market_sim_runner(&mut env, &mut agents, c.seed, c.steps, false),
            1 => market_sim_runner(&mut env, &mut agents, c.seed, c.steps, true),
            _ => { let mut rng = Xoroshiro128StarStar::seed_from_u64(c.seed); for _ in 0..c.steps { agents.update(&mut env, &mut rng); env.step(&mut rng); } }
        }
        digest_menv(&env)
    }
}

// ---------------------------------------------------------------- C20: probes
type Log = Rc<RefCell<Vec<(u32, u64, usize)>>>;
pub struct Probe { pub tag: u32, pub log: Log }
impl Agent for Probe {
    fn update<R: RngCore>(&mut self, env: &mut Env, rng: &mut R) {
        let d = rng.next_u64();
        for _ in 0..(self.tag % 3) { rng.next_u64(); }
        self.log.borrow_mut().push((self.tag, d, env.get_orders().len()));
        let _ = env.place_order(if d & 1 == 0 { Side::Bid } else { Side::Ask }, 1 + (d % 5) as u32, self.tag, Some(10 + (d % 7) as u32));
    }
}
pub struct ProbeM { pub tag: u32, pub log: Log }
impl MarketAgent for ProbeM {
    fn update<R: RngCore, const M: usize, const N: usize>(&mut self, env: &mut MarketEnv<M, N>, rng: &mut R) {
        let d = rng.next_u64();
        for _ in 0..(self.tag % 3) { rng.next_u64(); }
        let seen: usize = (0..M).map(|a| env.get_orders(a).len()).sum();
        self.log.borrow_mut().push((self.tag, d, seen));
        let _ = env.place_order((d % M as u64) as usize, if d & 1 == 0 { Side::Bid } else { Side::Ask }, 1 + (d % 5) as u32, self.tag, Some(10 + (d % 7) as u32));
    }
}

#[derive(AgentSet)] pub struct D1 { pub only: Probe }
#[derive(AgentSet)] pub struct D2 { pub zeta: Probe, pub alpha: Probe }
#[derive(AgentSet)] pub struct D3 { pub maker: Probe, pub _hedger: Probe, pub taker: Probe }
#[derive(AgentSet)] pub struct D4 { pub b: Probe, pub a: Probe, pub inner: D2, pub c: Probe }
#[derive(AgentSet)] pub struct D5 { pub f4: Probe, pub f3: Probe, pub f2: Probe, pub f1: Probe, pub f0: Probe }
#[derive(AgentSet)] pub struct D8 { pub h: Probe, pub _g: Probe, pub f: Probe, pub nested: D3, pub d: Probe, pub c: Probe, pub again: D2, pub a: Probe }
#[derive(MarketAgentSet)] pub struct M1 { pub only: ProbeM }
#[derive(MarketAgentSet)] pub struct M2 { pub zeta: ProbeM, pub alpha: ProbeM }
#[derive(MarketAgentSet)] pub struct M3 { pub maker: ProbeM, pub _hedger: ProbeM, pub taker: ProbeM }
#[derive(MarketAgentSet)] pub struct M4 { pub maker: ProbeM, pub taker: ProbeM, pub inner: M2, pub arbitrageur: ProbeM }
#[derive(MarketAgentSet)] pub struct M5 { pub f4: ProbeM, pub f3: ProbeM, pub f2: ProbeM, pub f1: ProbeM, pub f0: ProbeM }
#[derive(MarketAgentSet)] pub struct M8 { pub h: ProbeM, pub _g: ProbeM, pub f: ProbeM, pub nested: M3, pub d: ProbeM, pub c: ProbeM, pub again: M2, pub a: ProbeM }

fn p(tag: u32, log: &Log) -> Probe { Probe { tag, log: log.clone() } }
fn pm(tag: u32, log: &Log) -> ProbeM { ProbeM { tag, log: log.clone() } }

/// expected flattened declaration order of each shape, as tags
pub fn macro_checks(seed: u64, rounds: usize) -> (Vec<String>, u64) {
    let mut fails = Vec::new();
    let mut compared = 0u64;
    macro_rules! check_single { ($name:expr, $tags:expr, $build:expr) => {{
        let tags: Vec<u32> = $tags;
        let dlog: Log = Rc::new(RefCell::new(Vec::new()));
        let mlog: Log = Rc::new(RefCell::new(Vec::new()));
        let mut denv = Env::new(0, 1, 1000, true);
        let mut menv_ = Env::new(0, 1, 1000, true);
        let mut drng = Xoroshiro128StarStar::seed_from_u64(seed);
        let mut mrng = Xoroshiro128StarStar::seed_from_u64(seed);
        let mut derived = $build(&dlog);
        let mut manual: Vec<Probe> = tags.iter().map(|t| p(*t, &mlog)).collect();
        for _ in 0..rounds {
            derived.update(&mut denv, &mut drng);
            for m in manual.iter_mut() { Agent::update(m, &mut menv_, &mut mrng); }
            denv.step(&mut drng); menv_.step(&mut mrng);
        }
        compared += dlog.borrow().len() as u64;
        if *dlog.borrow() != *mlog.borrow() || digest_env(&denv) != digest_env(&menv_) || drng.next_u64() != mrng.next_u64() {
            let d: Vec<u32> = dlog.borrow().iter().take(tags.len()).map(|x| x.0).collect();
            fails.push(format!("derive(AgentSet) on shape {}: first round updated fields (by tag) {:?}, declaration order is {:?}; logs of (tag, first draw, orders seen) {} the hand-written sequence", $name, d, tags, if *dlog.borrow() == *mlog.borrow() { "equal but final state differs from" } else { "differ from" }));
        }
    }} }
    check_single!("D1{only}", vec![1], |l: &Log| D1 { only: p(1, l) });
    check_single!("D2{zeta,alpha}", vec![1, 2], |l: &Log| D2 { zeta: p(1, l), alpha: p(2, l) });
    check_single!("D3{maker,_hedger,taker}", vec![1, 2, 3], |l: &Log| D3 { maker: p(1, l), _hedger: p(2, l), taker: p(3, l) });
    check_single!("D4{b,a,inner:D2,c}", vec![1, 2, 3, 4, 5], |l: &Log| D4 { b: p(1, l), a: p(2, l), inner: D2 { zeta: p(3, l), alpha: p(4, l) }, c: p(5, l) });
    check_single!("D5{f4..f0}", vec![1, 2, 3, 4, 5], |l: &Log| D5 { f4: p(1, l), f3: p(2, l), f2: p(3, l), f1: p(4, l), f0: p(5, l) });
    check_single!("D8{h,_g,f,nested:D3,d,c,again:D2,a}", vec![1, 2, 3, 4, 5, 6, 7, 8, 9, 10, 11], |l: &Log| D8 { h: p(1, l), _g: p(2, l), f: p(3, l), nested: D3 { maker: p(4, l), _hedger: p(5, l), taker: p(6, l) }, d: p(7, l), c: p(8, l), again: D2 { zeta: p(9, l), alpha: p(10, l) }, a: p(11, l) });
    macro_rules! check_market { ($name:expr, $tags:expr, $build:expr) => {{
        let tags: Vec<u32> = $tags;
        let dlog: Log = Rc::new(RefCell::new(Vec::new()));
        let mlog: Log = Rc::new(RefCell::new(Vec::new()));
        let mut denv = MarketEnv::<2>::new(0, [1, 1], 1000, true);
        let mut menv_ = MarketEnv::<2>::new(0, [1, 1], 1000, true);
        let mut drng = Xoroshiro128StarStar::seed_from_u64(seed ^ 5);
        let mut mrng = Xoroshiro128StarStar::seed_from_u64(seed ^ 5);
        let mut derived = $build(&dlog);
        let mut manual: Vec<ProbeM> = tags.iter().map(|t| pm(*t, &mlog)).collect();
        for _ in 0..rounds {
            derived.update(&mut denv, &mut drng);
            for m in manual.iter_mut() { MarketAgent::update(m, &mut menv_, &mut mrng); }
            denv.step(&mut drng); menv_.step(&mut mrng);
        }
        compared += dlog.borrow().len() as u64;
        if *dlog.borrow() != *mlog.borrow() || digest_menv(&denv) != digest_menv(&menv_) || drng.next_u64() != mrng.next_u64() {
            let d: Vec<u32> = dlog.borrow().iter().take(tags.len()).map(|x| x.0).collect();
            fails.push(format!("derive(MarketAgentSet) on shape {}: first round updated fields (by tag) {:?}, declaration order is {:?}", $name, d, tags));
        }
    }} }
    check_market!("M1{only}", vec![1], |l: &Log| M1 { only: pm(1, l) });
    check_market!("M2{zeta,alpha}", vec![1, 2], |l: &Log| M2 { zeta: pm(1, l), alpha: pm(2, l) });
    check_market!("M3{maker,_hedger,taker}", vec![1, 2, 3], |l: &Log| M3 { maker: pm(1, l), _hedger: pm(2, l), taker: pm(3, l) });
    check_market!("M4{maker,taker,inner:M2,arbitrageur}", vec![1, 2, 3, 4, 5], |l: &Log| M4 { maker: pm(1, l), taker: pm(2, l), inner: M2 { zeta: pm(3, l), alpha: pm(4, l) }, arbitrageur: pm(5, l) });
    check_market!("M5{f4..f0}", vec![1, 2, 3, 4, 5], |l: &Log| M5 { f4: pm(1, l), f3: pm(2, l), f2: pm(3, l), f1: pm(4, l), f0: pm(5, l) });
    check_market!("M8{h,_g,f,nested:M3,d,c,again:M2,a}", vec![1, 2, 3, 4, 5, 6, 7, 8, 9, 10, 11], |l: &Log| M8 { h: pm(1, l), _g: pm(2, l), f: pm(3, l), nested: M3 { maker: pm(4, l), _hedger: pm(5, l), taker: pm(6, l) }, d: pm(7, l), c: pm(8, l), again: M2 { zeta: pm(9, l), alpha: pm(10, l) }, a: pm(11, l) });
    (fails, compared)
}

// ---------------------------------------------------------------- C17: mirrored price paths
/// Runs a momentum agent (single- or multi-asset) on an imposed mid-price path and on its mirror image
/// about `level`, with the same seed; returns per step (buys, sells, volume) of the agent's orders.
fn momentum_flow(path: &[i64], seed: u64, n: u16, params: &MomentumParams, market: bool, crossed: bool) -> Vec<(u32, u32, u64)> {
    let mut out = Vec::new();
    let mut rng = Xoroshiro128StarStar::seed_from_u64(seed);
    let p = || MomentumParams { tick_size: params.tick_size, p_cancel: params.p_cancel, trade_vol: params.trade_vol, decay: params.decay, demand: params.demand,
                                scale: params.scale, order_ratio: params.order_ratio, price_dist_mu: params.price_dist_mu, price_dist_sigma: params.price_dist_sigma };
    let tick = params.tick_size as i64;
    if !market {
        let mut env = Env::new(0, params.tick_size, 1_000_000, !crossed);
        let mut agent = MomentumAgent::new(0, n, p());
        for &mid in path {
            let ids: Vec<usize> = env.get_orders().iter().filter(|o| u8::from(o.status) == 1).map(|o| o.order_id).collect();
            for i in ids { env.cancel_order(i); }
            env.step(&mut rng);   // old quotes out before the new ones go in (they could cross each other)
            let mut hs = if mid % 2 == 0 { 4 } else { 3 };      // path is in half ticks: an odd value puts the mid-price between two grid points
            if crossed { hs = -(hs + 2 * ((out.len() as i64) % 3)); }   // trading is off: bid above ask, by a width that changes from step to step
            env.place_order(Side::Bid, 1_000_000, 999, Some((((mid - hs) / 2) * tick) as u32)).unwrap();
            env.place_order(Side::Ask, 1_000_000, 999, Some((((mid + hs) / 2) * tick) as u32)).unwrap();
            env.step(&mut rng);
            let before = env.get_orders().len();
            agent.update(&mut env, &mut rng);
            let (mut b, mut s, mut v) = (0, 0, 0u64);
            for o in &env.get_orders()[before..] { if bool::from(o.side) { b += 1 } else { s += 1 }; v += o.start_vol as u64; }
            out.push((b, s, v));
            env.step(&mut rng);
        }
    } else {
        let mut env = MarketEnv::<2>::new(0, [1, params.tick_size], 1_000_000, !crossed);
        let mut agent = MomentumMarketAgent::new(0, n, 1, p());
        for &mid in path {
            let ids: Vec<usize> = env.get_orders(1).iter().filter(|o| u8::from(o.status) == 1).map(|o| o.order_id).collect();
            for i in ids { env.cancel_order((1, i)); }
            env.step(&mut rng);
            let mut hs = if mid % 2 == 0 { 4 } else { 3 };
            if crossed { hs = -(hs + 2 * ((out.len() as i64) % 3)); }
            env.place_order(1, Side::Bid, 1_000_000, 999, Some((((mid - hs) / 2) * tick) as u32)).unwrap();
            env.place_order(1, Side::Ask, 1_000_000, 999, Some((((mid + hs) / 2) * tick) as u32)).unwrap();
            env.step(&mut rng);
            let before = env.get_orders(1).len();
            agent.update(&mut env, &mut rng);
            let (mut b, mut s, mut v) = (0, 0, 0u64);
            for o in &env.get_orders(1)[before..] { if bool::from(o.side) { b += 1 } else { s += 1 }; v += o.start_vol as u64; }
            out.push((b, s, v));
            env.step(&mut rng);
        }
    }
    out
}

pub fn momentum_mirror(base: u64, count: u64) -> (Vec<String>, String) {
    let mut fails = Vec::new();
    let (mut pairs, mut saturated_steps, mut nonzero_steps) = (0u64, 0u64, 0u64);
    let mut sample = String::new();
    for i in 0..count {
        let mut g = Sm(base ^ (i + 1).wrapping_mul(0x9E3779B97F4A7C15));
        let n = 1 + g.below(5) as u16;
        let saturated = g.chance(2, 3);
        let params = MomentumParams { tick_size: 1 + g.below(4) as u32, p_cancel: 0.0, trade_vol: 1 + g.below(9) as u32,
            decay: *g.pick(&[0.3f64, 0.5, 1.0]), demand: if saturated { 1000.0 * n as f64 } else { *g.pick(&[0.5f64, 1.0, 2.0]) }, scale: *g.pick(&[0.5f64, 1.0]),
            order_ratio: *g.pick(&[1.0f64, 2.0]), price_dist_mu: 0.0, price_dist_sigma: 0.5 };
        // half ticks; every fourth pair runs at a price level beyond 2^25 (not representable in single precision)
        let level = if g.chance(1, 4) { (1i64 << 27) + 2 * g.below(1000) as i64 + 1 } else { 400i64 };
        let crossed = g.chance(1, 5);   // trading disabled and the harness quotes crossed
        let len = 3 + g.below(8) as usize;
        let mut path = vec![level];
        let shape = g.below(4);
        for s in 1..len { let d = match shape { 0 => *g.pick(&[1i64, 2, 4]), 1 => -*g.pick(&[1i64, 2, 4]), 2 => *g.pick(&[3i64, -3, 0, 1, -1, 6, -6]), _ => if s % 3 == 0 { *g.pick(&[1i64, 8]) } else { 0 } }; let l = *path.last().unwrap(); path.push((l + d).clamp(level - 100, level + 100)); }
        let mirror: Vec<i64> = path.iter().map(|p| 2 * level - p).collect();
        let seed = g.next();
        let market = g.chance(1, 3);
        let run = |p: &Vec<i64>| std::panic::catch_unwind(std::panic::AssertUnwindSafe(|| momentum_flow(p, seed, n, &params, market, crossed)));
        let (a, b) = match (run(&path), run(&mirror)) {
            (Ok(a), Ok(b)) => (a, b),
            _ => {
                fails.push(format!("the simulation aborted (panic) while a momentum agent updated on an imposed price path; pair {} (seed {}, {} traders, {}{}, tick {}, path {:?})",
                    i, seed, n, if market { "multi-asset" } else { "single-asset" }, if crossed { ", trading disabled and quotes crossed" } else { "" }, params.tick_size, path));
                pairs += 1;
                continue;
            }
        };
        pairs += 1;
        if sample.is_empty() { sample = format!("path {:?} n={} demand={} decay={} ratio={} -> flow (buys,sells,vol) {:?}, mirrored {:?}", path, n, params.demand, params.decay, params.order_ratio, a, b); }
        let desc = format!("pair {} (seed {}, {} traders, {}{}, decay {}, scale {}, demand {}, order ratio {}, path {:?})", i, seed, n, if market { "multi-asset" } else { "single-asset" }, if crossed { ", trading disabled and quotes crossed" } else { "" }, params.decay, params.scale, params.demand, params.order_ratio, path);
        for (k, (x, y)) in a.iter().zip(b.iter()).enumerate() {
            if (x.0, x.1, x.2) != (y.1, y.0, y.2) {
                fails.push(format!("mirroring the price path does not mirror the order flow at step {}: (buys, sells, volume) = {:?} but mirrored run gives {:?}; {}", k, x, y, desc));
                break;
            }
        }
        // direction and count at saturated demand: M = m(1-decay) + decay(P-p) recomputed in f64 as documented
        let mut m = 0.0f64;
        for k in 1..path.len() {
            m = m * (1.0 - params.decay) + params.decay * ((path[k] - path[k - 1]) as f64 * 0.5 * params.tick_size as f64);
            let (bu, se, _) = a[k];
            if m != 0.0 { nonzero_steps += 1; }
            if m > 0.0 && se > 0 { fails.push(format!("sell orders while M = {} > 0 at step {}; {}", m, k, desc)); break; }
            if m < 0.0 && bu > 0 { fails.push(format!("buy orders while M = {} < 0 at step {}; {}", m, k, desc)); break; }
            if m == 0.0 && bu + se > 0 { fails.push(format!("orders while M = 0 at step {}; {}", k, desc)); break; }
            let pm = (params.demand * (params.scale * m).tanh() / n as f64).abs();
            if pm >= 1.0 && params.order_ratio * pm >= 1.0 {
                saturated_steps += 1;
                if bu + se != 2 * n as u32 { fails.push(format!("saturated demand (|p| = {:.3}) at step {} but {} orders from {} traders (each should submit one limit and one market order); {}", pm, k, bu + se, n, desc)); break; }
            }
        }
        if a[0] != (0, 0, 0) { fails.push(format!("orders on the first look (no previous price); {}", desc)); }
    }
    (fails, format!("{{\"mirrored_pairs\":{},\"steps_with_nonzero_signal\":{},\"saturated_steps_checked\":{},\"sample\":{:?}}}", pairs, nonzero_steps, saturated_steps, sample))
}
