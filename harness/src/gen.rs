//! Script generation for the book-level properties: exhaustive small-alphabet
//! trees and seeded state-aware random histories.
use crate::{apply, observe, Op, Outcome, Sm};
use bourse_book::types::Status;
use bourse_book::OrderBook;
use std::collections::HashSet;
use std::io::Write;

#[derive(Clone, Debug)]
pub struct Header { pub t0: u64, pub tick: u32, pub trading: bool }

/// An operation whose arguments may depend on the state it is applied in.
#[derive(Clone, Debug)]
pub enum Proto {
    Op(Op),
    /// set_time(now + k)
    Advance(u64),
    /// modify volume relative to the current one: -1 smaller, 0 equal, +1 larger
    ModRel(usize, Option<u32>, i32, bool),
}

#[derive(Default, Clone)]
pub struct Stats {
    pub scripts: u64,
    pub ops: u64,
    pub panics: u64,
    pub op_kinds: [u64; 13],
    pub price_errors: u64,
    pub trades: u64,
    pub nontrivial: u64,
    pub distinct_nontrivial: u64,
    pub final_status: [u64; 5],
    pub samples: Vec<String>,
    pub seen: HashSet<u64>,
}

pub struct Emitter<W: Write> {
    pub w: W,
    pub stats: Stats,
    pub keep_samples: usize,
}

fn kind(op: &Op) -> usize {
    match op {
        Op::Create { .. } => 0, Op::CreatePlace { .. } => 1, Op::Place(_) => 2, Op::Cancel(_) => 3,
        Op::Modify(..) => 4, Op::EvNew(_) => 5, Op::EvCancel(_) => 6, Op::EvModify(..) => 7,
        Op::SetTime(_) => 8, Op::Enable => 9, Op::Disable => 10, Op::ResetTvol => 11, Op::Reload => 12,
    }
}

fn fnv(h: u64, s: &str) -> u64 {
    let mut h = h;
    for b in s.bytes() { h ^= b as u64; h = h.wrapping_mul(0x100000001b3); }
    h
}

/// A script being executed on the real book and written out.
pub struct Run<'a, W: Write, const L: usize> {
    pub book: OrderBook<L>,
    em: &'a mut Emitter<W>,
    pub dead: bool,
    hash: u64,
    text: String,
    sample: bool,
    n_ops: u64,
    resting_touched: bool,
    partial: bool,
}

impl<'a, W: Write, const L: usize> Run<'a, W, L> {
    pub fn begin(em: &'a mut Emitter<W>, id: u64, h: &Header) -> Self {
        let book = OrderBook::<L>::new(h.t0, h.tick, h.trading);
        let hdr = format!("B {} {} {} {} {}", id, h.t0, h.tick, h.trading as u8, L);
        let obs = observe(&book);
        let _ = writeln!(em.w, "{}\nS {}", hdr, obs);
        let sample = em.stats.samples.len() < em.keep_samples;
        let hash = fnv(0xcbf29ce484222325, &hdr[hdr.find(' ').map(|i| i + 1).unwrap_or(0)..].splitn(2, ' ').nth(1).unwrap_or(""));
        Run { book, em, dead: false, hash, text: hdr, sample, n_ops: 0, resting_touched: false, partial: false }
    }

    pub fn status(&self, id: usize) -> Option<Status> {
        let n = self.book.get_orders().len();
        if id < n { Some(self.book.order(id).status) } else { None }
    }

    pub fn op(&mut self, op: &Op) {
        if self.dead { return; }
        // bookkeeping for the non-triviality rule
        match op {
            Op::Cancel(id) | Op::EvCancel(id) | Op::Modify(id, ..) | Op::EvModify(id, ..) => {
                if self.status(*id) == Some(Status::Active) { self.resting_touched = true; }
            }
            _ => {}
        }
        let enc = op.encode();
        let n_tr = self.book.get_trades().len();
        let (out, obs) = apply(&mut self.book, op);
        self.em.stats.ops += 1;
        self.em.stats.op_kinds[kind(op)] += 1;
        self.n_ops += 1;
        self.hash = fnv(self.hash, &enc);
        if let Outcome::PriceError(..) = out { self.em.stats.price_errors += 1; }
        let _ = writeln!(self.em.w, "O {}\nR {}", enc, out.encode());
        if self.sample { self.text.push_str(" | "); self.text.push_str(&enc); }
        match obs {
            Some(s) => {
                let _ = writeln!(self.em.w, "S {}", s);
                let tr = self.book.get_trades();
                for t in &tr[n_tr.min(tr.len())..] {
                    let p = self.book.order(t.passive_order_id);
                    let a = self.book.order(t.active_order_id);
                    if p.status == Status::Active || a.status == Status::Active { self.partial = true; }
                }
            }
            None => { self.dead = true; self.em.stats.panics += 1; }
        }
    }

    pub fn proto(&mut self, p: &Proto) {
        if self.dead { return; }
        match p {
            Proto::Op(o) => self.op(o),
            Proto::Advance(k) => { let t = self.book.get_time().saturating_add(*k); self.op(&Op::SetTime(t)) }
            Proto::ModRel(id, price, rel, ev) => {
                let cur = if *id < self.book.get_orders().len() { self.book.order(*id).vol } else { 2 };
                let v = match rel { r if *r < 0 => cur.saturating_sub(1).max(1), 0 => cur, _ => cur.saturating_add(2) };
                if *ev { self.op(&Op::EvModify(*id, *price, Some(v))) } else { self.op(&Op::Modify(*id, *price, Some(v))) }
            }
        }
    }

    /// Market orders for the whole opposite volume on both sides: the trade
    /// records spell out the complete queue order.
    pub fn drain(&mut self, enable_first: bool) {
        if self.dead { return; }
        if enable_first { self.op(&Op::Enable); }
        if self.dead { return; }
        let av = self.book.ask_vol();
        if av > 0 { self.op(&Op::CreatePlace { bid: true, vol: av, trader: 77, price: None }); }
        if self.dead { return; }
        let bv = self.book.bid_vol();
        if bv > 0 { self.op(&Op::CreatePlace { bid: false, vol: bv, trader: 77, price: None }); }
    }

    pub fn end(self) {
        let _ = writeln!(self.em.w, "E");
        let st = &mut self.em.stats;
        st.scripts += 1;
        let ntr = self.book.get_trades().len() as u64;
        st.trades += ntr;
        for o in self.book.get_orders() { st.final_status[u8::from(o.status) as usize] += 1; }
        let nontrivial = ntr > 0 && (self.partial || self.resting_touched);
        if nontrivial {
            st.nontrivial += 1;
            if st.seen.insert(self.hash) { st.distinct_nontrivial += 1; }
        }
        if self.sample { st.samples.push(self.text); }
    }
}

// ---------------------------------------------------------------- trees

#[derive(Clone, Copy, PartialEq, Eq, Debug)]
pub enum TreeKind { C01, C05, C06, C12, C13, C04 }

/// The alphabet at a node with `n` created orders. Prices are grid
/// multiples around 10 ticks; the alphabet is a pure function of `n`.
pub fn alphabet(kind: TreeKind, n: usize, tick: u32, reduced: bool) -> Vec<Proto> {
    let mut a = Vec::new();
    let prices: Vec<u32> = if reduced || kind == TreeKind::C06 { vec![10 * tick, 11 * tick] } else { vec![9 * tick, 10 * tick, 11 * tick] };
    let vols: [u32; 2] = [2, 3];
    for &bid in &[true, false] {
        for &p in &prices { for &v in &vols {
            a.push(Proto::Op(Op::CreatePlace { bid, vol: v, trader: 1, price: Some(p) }));
        } }
        if !(reduced && kind == TreeKind::C06) {
            for &v in &vols { a.push(Proto::Op(Op::CreatePlace { bid, vol: v, trader: 2, price: None })); }
        }
        if kind != TreeKind::C06 {
            a.push(Proto::Op(Op::Create { bid, vol: 2, trader: 3, price: Some(prices[prices.len() / 2]) }));
        }
    }
    if kind != TreeKind::C05 { a.push(Proto::Advance(1)); }
    for id in 0..n {
        a.push(Proto::Op(Op::Cancel(id)));
        if kind != TreeKind::C06 {
            a.push(Proto::Op(Op::Place(id)));
            a.push(Proto::Op(Op::EvNew(id)));
            a.push(Proto::Op(Op::EvCancel(id)));
        }
        if kind == TreeKind::C01 {
            // re-pricing and re-sizing through process_event (C01 covers re-priced orders)
            a.push(Proto::Op(Op::EvModify(id, Some(prices[0]), None)));
            a.push(Proto::Op(Op::EvModify(id, Some(prices[prices.len() - 1]), None)));
            a.push(Proto::ModRel(id, None, 0, true));
            a.push(Proto::ModRel(id, None, -1, true));
        }
        if kind == TreeKind::C06 || kind == TreeKind::C04 || kind == TreeKind::C13 {
            let mut popts: Vec<Option<u32>> = vec![None];
            for &p in &prices { popts.push(Some(p)); }
            for p in popts {
                a.push(Proto::Op(Op::Modify(id, p, None)));
                for rel in [-1, 0, 1] { a.push(Proto::ModRel(id, p, rel, rel == 0)); }
            }
        }
    }
    match kind {
        TreeKind::C12 => {
            for &bid in &[true, false] {
                // boundary prices: the sentinels and the largest grid price
                a.push(Proto::Op(Op::Create { bid, vol: 2, trader: 5, price: Some(u32::MAX) }));
                a.push(Proto::Op(Op::Create { bid, vol: 2, trader: 5, price: Some(0) }));
                a.push(Proto::Op(Op::Create { bid, vol: 2, trader: 5, price: Some(u32::MAX - 1) }));
                a.push(Proto::Op(Op::CreatePlace { bid, vol: 2, trader: 4, price: Some(10 * tick + 1) }));
                a.push(Proto::Op(Op::Create { bid, vol: 2, trader: 4, price: Some(11 * tick - 1) }));
            }
            for id in 0..n {
                a.push(Proto::Op(Op::Modify(id, Some(10 * tick + 1), None)));
                a.push(Proto::Op(Op::EvModify(id, Some(9 * tick + 1), Some(5))));
                a.push(Proto::Op(Op::Modify(id, Some(11 * tick), None)));
            }
        }
        TreeKind::C13 | TreeKind::C04 => {
            a.push(Proto::Op(Op::Disable));
            a.push(Proto::Op(Op::Enable));
            if kind == TreeKind::C04 { a.push(Proto::Op(Op::ResetTvol)); a.push(Proto::Op(Op::Reload)); }
        }
        _ => {}
    }
    a
}

fn creates(p: &Proto, tick: u32) -> bool {
    match p {
        Proto::Op(Op::Create { price, .. }) | Proto::Op(Op::CreatePlace { price, .. }) => price.map_or(true, |x| x % tick == 0),
        _ => false,
    }
}

/// Depth-first enumeration of every path of exactly `depth` operations.
pub fn enumerate(kind: TreeKind, tick: u32, depth: usize, reduced: bool, f: &mut dyn FnMut(u64, &[Proto])) -> u64 {
    fn go(kind: TreeKind, tick: u32, depth: usize, reduced: bool, path: &mut Vec<Proto>, n: usize, idx: &mut u64, f: &mut dyn FnMut(u64, &[Proto])) {
        if path.len() == depth { f(*idx, path); *idx += 1; return; }
        for p in alphabet(kind, n, tick, reduced) {
            let n2 = if creates(&p, tick) { n + 1 } else { n };
            path.push(p);
            go(kind, tick, depth, reduced, path, n2, idx, f);
            path.pop();
        }
    }
    let mut idx = 0;
    go(kind, tick, depth, reduced, &mut Vec::new(), 0, &mut idx, f);
    idx
}

// ---------------------------------------------------------------- random histories

#[derive(Clone, Debug)]
pub struct Family {
    pub name: &'static str,
    pub wide: bool,         // prices over the whole u32 range and near both ends
    pub ties: bool,         // clock often not advanced between queue insertions
    pub modify: bool,
    pub toggles: bool,
    pub reload: bool,
    pub offgrid: bool,
    pub malformed: bool,    // ops outside the valid-history domain
    pub redundant: bool,    // repeated place / cancel / modify on orders in every status
    pub events: bool,
}

pub fn family(name: &str) -> Family {
    let base = Family { name: "C01", wide: false, ties: false, modify: false, toggles: false, reload: false,
        offgrid: false, malformed: false, redundant: false, events: true };
    match name {
        "C01" => Family { name: "C01", modify: true, ..base },
        "C02" => Family { name: "C02", modify: true, toggles: true, reload: true, ..base },
        "C03" => Family { name: "C03", modify: true, toggles: true, ..base },
        "C04" => Family { name: "C04", modify: true, toggles: true, redundant: true, reload: true, ..base },
        "C05" => Family { name: "C05", ties: true, modify: true, reload: true, ..base },
        "C06" => Family { name: "C06", modify: true, toggles: true, ..base },
        "C07" => Family { name: "C07", modify: true, toggles: true, reload: true, ..base },
        "C12" => Family { name: "C12", modify: true, offgrid: true, ..base },
        "C13" => Family { name: "C13", modify: true, toggles: true, ..base },
        "MAL" => Family { name: "MAL", modify: true, toggles: true, reload: true, offgrid: true, malformed: true, redundant: true, ties: true, ..base },
        _ => panic!("unknown family {}", name),
    }
}

pub struct PriceModel { pub tick: u32, pub centre: u32, pub wide: bool, pub mirror: bool, pub narrow: bool }
impl PriceModel {
    pub fn new(rng: &mut Sm, tick: u32, wide: bool) -> Self {
        let max_k = (u32::MAX - 1) / tick; // largest k with k*tick < MAX
        let centre_k = if !wide { 10 + rng.below(90) as u32 } else {
            match rng.below(4) {
                0 => 4 + rng.below(4) as u32,                        // near the bottom
                1 => max_k - 4 - rng.below(4) as u32,                // near the top
                _ => 8 + (rng.next() % (max_k as u64 - 16)) as u32,  // anywhere
            }
        };
        PriceModel { tick, centre: centre_k, wide, mirror: false, narrow: false }
    }
    /// a valid grid price: 0 < p < MAX
    pub fn price(&self, rng: &mut Sm) -> u32 {
        let max_k = (u32::MAX - 1) / self.tick;
        let spread = if self.narrow { 1 } else if rng.chance(1, 8) { 30 } else { 4 };
        let lo = self.centre.saturating_sub(spread).max(1);
        let hi = self.centre.saturating_add(spread).min(max_k);
        let k = lo + rng.below((hi - lo + 1) as u64) as u32;
        // mirror mode (tick divides 2^32-1): every third price is reflected about the middle of the u32 range,
        // so that a price p and the price u32::MAX - p both occur in one history
        if self.mirror && rng.chance(1, 3) { return u32::MAX - k * self.tick; }
        k * self.tick
    }
}

fn vol(rng: &mut Sm, wide: bool) -> u32 {
    if wide && rng.chance(1, 6) { 1 + rng.below(1 << 20) as u32 } else { 1 + rng.below(6) as u32 }
}

/// volumes around 2^31 and close to 2^32 (differences that do not fit a signed 32-bit value)
fn huge_vol(rng: &mut Sm) -> u32 {
    let r = rng.below(3) as u32;
    *rng.pick(&[(1u32 << 31) - 1 - r, (1u32 << 31) + r, 3_000_000_000 + r, u32::MAX - 2 - r])
}

/// One seeded random history of `len` operations followed by the drain probe.
pub fn random_script<W: Write, const L: usize>(em: &mut Emitter<W>, id: u64, rng: &mut Sm, fam: &Family, len: usize) {
    let mut tick = 1 + rng.below(10) as u32;
    // extreme mode (decided first: it may restrict the tick to a divisor of 2^32-1 so that mirrored prices are on the grid)
    let extreme = rng.chance(1, 4);
    if extreme && rng.chance(1, 2) { tick = *rng.pick(&[1u32, 3, 5]); }
    let wide_p = fam.wide || rng.chance(1, 3);
    let pm = PriceModel::new(rng, tick, wide_p);
    let wide_vol = rng.chance(1, 3);
    // extreme mode: a few orders with volumes around 2^31 / near 2^32, and (when the tick divides 2^32-1) prices
    // reflected about the middle of the u32 range
    let mut pm = pm;
    if extreme && (u32::MAX % tick == 0) { pm.mirror = true; pm.narrow = rng.chance(1, 2); }
    // in extreme mode most limit orders go to one side (deep one-sided books)
    let side_bias: Option<bool> = if extreme && rng.chance(1, 2) { Some(rng.chance(1, 2)) } else { None };
    let t0 = if rng.chance(1, 10) { rng.next() >> 8 } else { rng.below(1000) };
    let trading0 = !(fam.toggles && rng.chance(1, 5));
    let h = Header { t0, tick, trading: trading0 };
    let mut run = Run::<W, L>::begin(em, id, &h);
    let tie_rate = if fam.ties { 2 } else { 12 }; // 1/tie_rate of ops do not advance the clock first... inverted below
    for _ in 0..len {
        if run.dead { break; }
        // clock
        let advance = if fam.ties { rng.chance(1, 2) } else { !rng.chance(1, tie_rate) };
        if advance {
            let k = if rng.chance(1, 20) { 1 + rng.below(1_000_000) } else { 1 + rng.below(3) };
            run.proto(&Proto::Advance(k));
        }
        let n = run.book.get_orders().len();
        let pick_id = |rng: &mut Sm, run: &Run<W, L>, want: Option<Status>| -> Option<usize> {
            if n == 0 { return None; }
            if let Some(w) = want {
                let c: Vec<usize> = (0..n).filter(|i| run.book.order(*i).status == w).collect();
                if !c.is_empty() && rng.chance(9, 10) { return Some(*rng.pick(&c)); }
            }
            Some(rng.below(n as u64) as usize)
        };
        let roll = rng.below(100);
        let ev = fam.events && rng.chance(1, 4);
        if roll < 38 {
            // aggressive or passive limit order
            let bid = match side_bias { Some(b) if rng.chance(4, 5) => b, _ => rng.chance(1, 2) };
            let p = pm.price(rng);
            let v = if extreme && rng.chance(1, 8) { huge_vol(rng) } else { vol(rng, wide_vol) };
            run.op(&Op::CreatePlace { bid, vol: v, trader: rng.below(5) as u32, price: Some(p) });
        } else if roll < 46 {
            run.op(&Op::CreatePlace { bid: rng.chance(1, 2), vol: vol(rng, wide_vol), trader: rng.below(5) as u32, price: None });
        } else if roll < 52 {
            let price = if rng.chance(1, 4) { None } else { Some(pm.price(rng)) };
            run.op(&Op::Create { bid: rng.chance(1, 2), vol: vol(rng, wide_vol), trader: rng.below(5) as u32, price });
        } else if roll < 58 {
            if let Some(i) = pick_id(rng, &run, Some(Status::New)) { run.op(&if ev { Op::EvNew(i) } else { Op::Place(i) }); }
        } else if roll < 72 {
            let want = if fam.redundant && rng.chance(1, 3) { None } else { Some(Status::Active) };
            if let Some(i) = pick_id(rng, &run, want) { run.op(&if ev { Op::EvCancel(i) } else { Op::Cancel(i) }); }
        } else if roll < 86 && fam.modify {
            let want = if fam.redundant && rng.chance(1, 3) { None } else { Some(Status::Active) };
            if let Some(i) = pick_id(rng, &run, want) {
                let cur = run.book.order(i).vol;
                let p = match rng.below(3) { 0 => None, _ => Some(if fam.offgrid && rng.chance(1, 3) { pm.price(rng).wrapping_add(1 + rng.below(tick.max(2) as u64 - 1) as u32) } else { pm.price(rng) }) };
                // now and then: the order's own price restated, or its reflection 2^32-1-p (the key a bid is stored
                // under; off the grid unless the tick divides 2^32-1)
                let own = run.book.order(i).price;
                let p = match rng.below(16) { 0 => Some(own), 1 => Some(u32::MAX - own), _ => p };
                let v = if extreme && rng.chance(1, 3) { Some(if rng.chance(1, 2) { 1 + rng.below(10) as u32 } else { huge_vol(rng) }) } else {
                    match rng.below(5) { 0 => None, 1 => Some(cur.saturating_sub(1 + rng.below(3) as u32).max(1)), 2 => Some(cur.max(1)), 3 => Some(cur.saturating_add(1 + rng.below(4) as u32)), _ => Some(vol(rng, wide_vol)) } };
                run.op(&if ev { Op::EvModify(i, p, v) } else { Op::Modify(i, p, v) });
            }
        } else if roll < 90 && fam.toggles {
            run.op(&if rng.chance(1, 2) { Op::Disable } else { Op::Enable });
        } else if roll < 92 && fam.toggles {
            run.op(&Op::ResetTvol);
        } else if roll < 95 && fam.reload {
            run.op(&Op::Reload);
        } else if roll < 98 && fam.offgrid {
            let p = if rng.chance(1, 6) { *rng.pick(&[0u32, 1, u32::MAX, u32::MAX - 1, u32::MAX - 2]) }
                    else { pm.price(rng).wrapping_add(1 + rng.below(tick.max(2) as u64 - 1) as u32) };
            let (both, bid, v) = (rng.chance(1, 2), rng.chance(1, 2), vol(rng, false));
            let o = if both { Op::CreatePlace { bid, vol: v, trader: 9, price: Some(p) } }
                    else { Op::Create { bid, vol: v, trader: 9, price: Some(p) } };
            run.op(&o);
        } else if fam.malformed {
            let o = match rng.below(8) {
                0 => Op::Place(n + rng.below(3) as usize),
                1 => Op::Cancel(n + rng.below(3) as usize),
                2 => Op::Modify(n + rng.below(3) as usize, None, Some(1)),
                3 => Op::CreatePlace { bid: rng.chance(1, 2), vol: 0, trader: 8, price: Some(pm.price(rng)) },
                4 => Op::CreatePlace { bid: rng.chance(1, 2), vol: 1 + rng.below(3) as u32, trader: 8, price: Some(if tick == 1 || rng.chance(1, 2) { 0 } else { u32::MAX - u32::MAX % tick }) },
                5 => Op::SetTime(run.book.get_time().saturating_sub(1 + rng.below(5))),
                6 => Op::CreatePlace { bid: rng.chance(1, 2), vol: u32::MAX - rng.below(3) as u32, trader: 8, price: Some(pm.price(rng)) },
                _ => if n > 0 { Op::Modify(rng.below(n as u64) as usize, None, Some(0)) } else { Op::SetTime(0) },
            };
            run.op(&o);
        } else {
            let bid = rng.chance(1, 2);
            run.op(&Op::CreatePlace { bid, vol: vol(rng, wide_vol), trader: rng.below(5) as u32, price: Some(pm.price(rng)) });
        }
    }
    run.drain(fam.toggles || fam.malformed);
    run.end();
}
