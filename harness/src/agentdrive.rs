//! Driving the built-in agents against Env / MarketEnv with a counting generator,
//! and producing the log-normal oracle table the model needs (C09, C16, C17).
use crate::envdrive::{EOp, ERun, EStats, TEnv, TMEnv, Target};
use crate::Sm;
use bourse_de::agents::{MomentumAgent, MomentumMarketAgent, MomentumParams, NoiseAgent, NoiseAgentParams,
                        NoiseMarketAgent, RandomAgents, RandomMarketAgents};
use bourse_de::{Env, MarketEnv};
use rand::RngCore;
use rand_distr::{Distribution, LogNormal};
use rand_xoshiro::rand_core::SeedableRng;
use rand_xoshiro::Xoroshiro128StarStar;
use std::io::Write;

/// counts raw 64-bit draws
pub struct CountRng { pub inner: Xoroshiro128StarStar, pub n: u64 }
impl RngCore for CountRng {
    fn next_u32(&mut self) -> u32 { self.n += 1; self.inner.next_u32() }
    fn next_u64(&mut self) -> u64 { self.n += 1; self.inner.next_u64() }
    fn fill_bytes(&mut self, dest: &mut [u8]) { for ch in dest.chunks_mut(8) { let v = self.next_u64().to_le_bytes(); ch.copy_from_slice(&v[..ch.len()]); } }
    fn try_fill_bytes(&mut self, dest: &mut [u8]) -> Result<(), rand::Error> { self.fill_bytes(dest); Ok(()) }
}

#[derive(Clone, Debug)]
pub enum AgentSpec {
    Random { a: usize, n: usize, tick_range: (u32, u32), vol_range: (u32, u32), tick: u32, rate: f32 },
    Noise { a: usize, first: u32, n: u16, tick: u32, p_limit: f32, p_market: f32, p_cancel: f32, vol: u32, mu: f64, sigma: f64 },
    Momentum { a: usize, first: u32, n: u16, tick: u32, p_cancel: f32, vol: u32, decay: f64, demand: f64, scale: f64, ratio: f64, mu: f64, sigma: f64 },
}

impl AgentSpec {
    pub fn encode(&self) -> String {
        match self {
            AgentSpec::Random { a, n, tick_range, vol_range, tick, rate } =>
                format!("1 {} {} {} {} {} {} {} {}", a, n, tick_range.0, tick_range.1, vol_range.0, vol_range.1, tick, rate.to_bits()),
            AgentSpec::Noise { a, first, n, tick, p_limit, p_market, p_cancel, vol, .. } =>
                format!("2 {} {} {} {} {} {} {} {}", a, first, n, tick, p_limit.to_bits(), p_market.to_bits(), p_cancel.to_bits(), vol),
            AgentSpec::Momentum { a, first, n, tick, p_cancel, vol, decay, demand, scale, ratio, .. } =>
                format!("3 {} {} {} {} {} {} {} {} {} {}", a, first, n, tick, p_cancel.to_bits(), vol, decay.to_bits(), demand.to_bits(), scale.to_bits(), ratio.to_bits()),
        }
    }
    pub fn lognormal(&self) -> Option<(f64, f64)> {
        match self { AgentSpec::Random { .. } => None, AgentSpec::Noise { mu, sigma, .. } | AgentSpec::Momentum { mu, sigma, .. } => Some((*mu, *sigma)) }
    }
}

pub enum Built { R(RandomAgents), N(NoiseAgent), M(MomentumAgent), RM(RandomMarketAgents), NM(NoiseMarketAgent), MM(MomentumMarketAgent) }

pub fn build(spec: &AgentSpec, market: bool) -> Built {
    match (spec, market) {
        (AgentSpec::Random { n, tick_range, vol_range, tick, rate, .. }, false) => Built::R(RandomAgents::new(*n, *tick_range, *vol_range, *tick, *rate)),
        (AgentSpec::Random { a, n, tick_range, vol_range, tick, rate }, true) => Built::RM(RandomMarketAgents::new(*a, *n, *tick_range, *vol_range, *tick, *rate)),
        (AgentSpec::Noise { first, n, tick, p_limit, p_market, p_cancel, vol, mu, sigma, .. }, false) =>
            Built::N(NoiseAgent::new(*first, *n, NoiseAgentParams { tick_size: *tick, p_limit: *p_limit, p_market: *p_market, p_cancel: *p_cancel, trade_vol: *vol, price_dist_mu: *mu, price_dist_sigma: *sigma })),
        (AgentSpec::Noise { a, first, n, tick, p_limit, p_market, p_cancel, vol, mu, sigma }, true) =>
            Built::NM(NoiseMarketAgent::new(*a, *first, *n, NoiseAgentParams { tick_size: *tick, p_limit: *p_limit, p_market: *p_market, p_cancel: *p_cancel, trade_vol: *vol, price_dist_mu: *mu, price_dist_sigma: *sigma })),
        (AgentSpec::Momentum { first, n, tick, p_cancel, vol, decay, demand, scale, ratio, mu, sigma, .. }, false) =>
            Built::M(MomentumAgent::new(*first, *n, MomentumParams { tick_size: *tick, p_cancel: *p_cancel, trade_vol: *vol, decay: *decay, demand: *demand, scale: *scale, order_ratio: *ratio, price_dist_mu: *mu, price_dist_sigma: *sigma })),
        (AgentSpec::Momentum { a, first, n, tick, p_cancel, vol, decay, demand, scale, ratio, mu, sigma }, true) =>
            Built::MM(MomentumMarketAgent::new(*first, *n, *a, MomentumParams { tick_size: *tick, p_cancel: *p_cancel, trade_vol: *vol, decay: *decay, demand: *demand, scale: *scale, order_ratio: *ratio, price_dist_mu: *mu, price_dist_sigma: *sigma })),
    }
}

pub fn random_spec(g: &mut Sm, a: usize, tick: u32, first: u32, kinds: &[u8]) -> AgentSpec {
    let probs = [0.0f32, 0.3, 0.7, 1.0, 1.5];
    let n = 1 + g.below(5) as u16;
    match *g.pick(kinds) {
        0 => {
            // (tick 0 is inside a range that starts at 0: a sell quoted there carries the market sentinel price)
            let lo = if g.chance(1, 6) { 0 } else { 1 + g.below(40) as u32 };
            AgentSpec::Random { a, n: n as usize, tick_range: (lo, lo + 1 + g.below(12) as u32), vol_range: { let v = 1 + g.below(20) as u32; (v, v + 1 + g.below(10) as u32) }, tick, rate: *g.pick(&[0.0f32, 0.5, 0.8, 1.0, 2.0]) }
        }
        1 => AgentSpec::Noise { a, first, n, tick, p_limit: *g.pick(&probs), p_market: *g.pick(&probs), p_cancel: *g.pick(&[0.0f32, 0.1, 0.5, 1.0]),
                                vol: 1 + g.below(50) as u32, mu: *g.pick(&[0.0f64, 2.0, 4.0]), sigma: *g.pick(&[0.1f64, 1.0, 10.0]) },
        _ => AgentSpec::Momentum { a, first, n, tick, p_cancel: *g.pick(&[0.0f32, 0.1, 0.5, 1.0]), vol: 1 + g.below(50) as u32,
                                   decay: *g.pick(&[0.1f64, 0.5, 1.0]), demand: *g.pick(&[1.0f64, 5.0, 1000.0]), scale: *g.pick(&[0.01f64, 0.5, 1.0]),
                                   ratio: *g.pick(&[0.5f64, 1.0, 2.0]), mu: *g.pick(&[0.0f64, 2.0]), sigma: *g.pick(&[0.1f64, 1.0, 10.0]) },
    }
}

fn oracle_table(seed: u64, total: u64, specs: &[AgentSpec]) -> String {
    let mut out = String::new();
    let mut base = Xoroshiro128StarStar::seed_from_u64(seed);
    for pos in 0..=total {
        for (k, s) in specs.iter().enumerate() {
            if let Some((mu, sigma)) = s.lognormal() {
                let d = LogNormal::<f64>::new(mu, sigma).unwrap();
                let mut c = CountRng { inner: base.clone(), n: 0 };
                let v: f64 = d.sample(&mut c);
                out.push_str(&format!("T {} {} {} {}\n", k, pos, v.to_bits(), c.n));
            }
        }
        base.next_u64();
    }
    out
}

/// One agent script on Env (market = false, single asset, L = 10) or MarketEnv<2, 10>.
/// `quotes`: the harness imposes a mid-price path with its own quotes (C17).
pub fn agent_script<W: Write>(w: &mut W, st: &mut EStats, id: u64, g: &mut Sm, market: bool, steps: usize, kinds: &[u8], quotes: Option<&[i64]>) {
    let seed = g.next() >> (g.below(40) as u32);
    let t0 = g.below(1000);
    let step = *g.pick(&[1000u64, 1_000_000]);
    let assets = if market { 2 } else { 1 };
    let ticks: Vec<u32> = (0..assets).map(|_| 1 + g.below(10) as u32).collect();
    let n_agents = 1 + g.below(3) as usize;
    let mut first = 0u32;
    let specs: Vec<AgentSpec> = (0..n_agents).map(|_| { let a = g.below(assets as u64) as usize; let s = random_spec(g, a, ticks[a], first, kinds); first += 10; s }).collect();
    let mut built: Vec<Built> = specs.iter().map(|s| build(s, market)).collect();
    let mut rng = CountRng { inner: Xoroshiro128StarStar::seed_from_u64(seed), n: 0 };
    let mut buf: Vec<u8> = Vec::new();
    let mut local = EStats::new();
    // a quarter of the free-running scripts contain a no-trading period (from the start, with crossed
    // starting quotes, or switched on and off along the way): the agents then look at crossed books
    let off_mode = quotes.is_none() && g.chance(1, 4);
    let trading0 = !(off_mode && g.chance(1, 2));
    let (off_at, on_at) = if off_mode && trading0 { let a = 1 + g.below(1 + steps as u64 / 2) as usize; (a, a + 1 + g.below(1 + steps as u64 / 2) as usize) } else { (usize::MAX, if off_mode && g.chance(1, 2) { 1 + g.below(1 + steps as u64) as usize } else { usize::MAX }) };
    let mut tenv; let mut tmenv;
    let t: &mut dyn Target = if market {
        tmenv = TMEnv::<2, 10>(MarketEnv::<2, 10>::new(t0, [ticks[0], ticks[1]], step, trading0)); &mut tmenv
    } else {
        tenv = TEnv::<10>(Env::<10>::new(t0, ticks[0], step, trading0)); &mut tenv
    };
    {
        // the script body is buffered: the oracle table has to precede it
        let mut run = ERun::begin(&mut buf, &mut local, id, t, 10, seed, t0, step, trading0, &ticks, &rng);
        for s in 0..steps {
            if run.dead { break; }
            if s == off_at { run.op(t, &mut rng, &EOp::Disable); }
            if s == on_at { run.op(t, &mut rng, &EOp::Enable); }
            if let Some(path) = quotes {
                // harness-controlled quotes around the imposed mid-price (trader 999), replacing the previous ones
                let mid = path[s.min(path.len() - 1)];
                for a in 0..assets {
                    let n = t.n_orders(a);
                    for oid in 0..n { if t.status_of(a, oid) == 1 { run.op(t, &mut rng, &EOp::Cancel(a, oid)); } }
                }
                run.op(t, &mut rng, &EOp::Step);   // old quotes out before the new ones go in
                for a in 0..assets {
                    let tk = ticks[a] as i64;
                    let hs = if mid % 2 == 0 { 4 } else { 3 };   // the path is in half ticks
                    run.op(t, &mut rng, &EOp::Place { a, bid: true, vol: 1_000_000, trader: 999, price: Some((((mid - hs) / 2) * tk) as u32) });
                    run.op(t, &mut rng, &EOp::Place { a, bid: false, vol: 1_000_000, trader: 999, price: Some((((mid + hs) / 2) * tk) as u32) });
                }
                run.op(t, &mut rng, &EOp::Step);
            } else if s == 0 && g.chance(2, 3) {
                let (pb, pa) = if !trading0 && g.chance(2, 3) { (27, 20) } else { (20, 24) };   // crossed while nothing can trade
                // one book in eight sits at the very bottom of the price range: the best ask one tick above zero,
                // no bid or a bid at price 0 (the observed mid-price is then below one tick)
                let bottom = g.chance(1, 8);
                for a in 0..assets {
                    if bottom {
                        if g.chance(1, 2) { run.op(t, &mut rng, &EOp::Place { a, bid: true, vol: 50, trader: 999, price: Some(0) }); }
                        run.op(t, &mut rng, &EOp::Place { a, bid: false, vol: 50, trader: 999, price: Some(ticks[a]) });
                        continue;
                    }
                    if g.chance(3, 4) { run.op(t, &mut rng, &EOp::Place { a, bid: true, vol: 50, trader: 999, price: Some(pb * ticks[a]) }); }
                    if g.chance(3, 4) { run.op(t, &mut rng, &EOp::Place { a, bid: false, vol: 50, trader: 999, price: Some(pa * ticks[a]) }); }
                }
                run.op(t, &mut rng, &EOp::Step);
            }
            for k in 0..built.len() {
                if run.dead { break; }
                run.agent(t, k, &mut built[k], &mut rng);
            }
            run.op(t, &mut rng, &EOp::Step);
        }
        run.end(t);
    }
    // emit: first two lines (M, S) of the buffer, then agents and oracle table, then the rest
    let text = String::from_utf8(buf).unwrap();
    let mut it = text.splitn(3, '\n');
    let (l1, l2, rest) = (it.next().unwrap_or(""), it.next().unwrap_or(""), it.next().unwrap_or(""));
    let _ = writeln!(w, "{}\n{}", l1, l2);
    for s in &specs { let _ = writeln!(w, "G {}", s.encode()); }
    let _ = w.write_all(oracle_table(seed, rng.n + 4, &specs).as_bytes());
    let _ = w.write_all(rest.as_bytes());
    st.scripts += local.scripts; st.ops += local.ops; st.steps += local.steps; st.panics += local.panics; st.nontrivial += local.nontrivial;
    for i in 0..9 { st.batch_hist[i] += local.batch_hist[i]; st.kinds[i] += local.kinds[i]; }
    if st.samples.len() < 3 { for s in local.samples { st.samples.push(format!("{} agents={:?}", s, specs)); } }
}
