//! C15: the property's own statistical test on the implementation (supporting
//! evidence and the search for a failing input when the exact tie breaks).
//! Counts are compared with an exact concentration bound (Bernstein, union
//! bound over every cell tested, total false-alarm probability below 1e-9).
use bourse_book::types::Side;
use bourse_de::{Env, MarketEnv};
use rand_xoshiro::rand_core::SeedableRng;
use rand_xoshiro::Xoroshiro128StarStar;

fn bound(n: f64, p: f64, cells: f64) -> f64 {
    let l = (2.0 * cells / 1e-9).ln();
    (2.0 * n * p * (1.0 - p) * l).sqrt() + 2.0 * l / 3.0
}

fn perm_index(pos: &[usize]) -> usize {
    // Lehmer code
    let n = pos.len();
    let mut idx = 0;
    for i in 0..n {
        let mut c = 0;
        for j in i + 1..n { if pos[j] < pos[i] { c += 1; } }
        idx = idx * (n - i) + c;
    }
    idx
}

fn fact(n: usize) -> usize { (1..=n).product() }

/// positions of the items of one single-asset batch of `n` distinct new limit orders
fn env_positions(seed: u64, n: usize) -> Vec<usize> { env_positions_t(seed, n, true) }
fn env_positions_off(seed: u64, n: usize) -> Vec<usize> { env_positions_t(seed, n, false) }
fn env_positions_t(seed: u64, n: usize, trading: bool) -> Vec<usize> {
    let mut env: Env<1> = Env::new(1000, 1, 1_000_000, trading);
    let mut rng = Xoroshiro128StarStar::seed_from_u64(seed);
    for i in 0..n { env.place_order(Side::Bid, 1 + (i as u32 % 5), i as u32, Some(10 + i as u32)).unwrap(); }
    env.step(&mut rng);
    (0..n).map(|i| (env.order(i).arr_time - 1000) as usize).collect()
}

/// mixed kinds: `n` instructions alternating new orders and cancels of resting orders (position read
/// from arrival resp. end times), on a 2-asset MarketEnv with assets interleaved (1,0,1,0,...)
fn menv_positions(seed: u64, n: usize) -> Vec<usize> { menv_positions_t(seed, n, true) }
fn menv_positions_off(seed: u64, n: usize) -> Vec<usize> { menv_positions_t(seed, n, false) }
fn menv_positions_t(seed: u64, n: usize, trading: bool) -> Vec<usize> {
    let mut env: MarketEnv<2, 1> = MarketEnv::new(0, [1, 1], 1_000_000, trading);
    let mut rng = Xoroshiro128StarStar::seed_from_u64(seed ^ 0x5DEECE66D);
    let ncancel = n / 2;
    let mut cancel_ids = Vec::new();
    for i in 0..ncancel {
        let a = (i + 1) % 2;
        cancel_ids.push(env.place_order(a, Side::Ask, 1, 0, Some(500 + i as u32)).unwrap());
    }
    env.step(&mut rng);
    let start = env.get_market().get_time();
    let mut items: Vec<(bool, (usize, usize))> = Vec::new();
    let mut ci = 0;
    for i in 0..n {
        let a = (i + 1) % 2;
        if i % 2 == 1 && ci < cancel_ids.len() {
            env.cancel_order(cancel_ids[ci]);
            items.push((true, cancel_ids[ci]));
            ci += 1;
        } else {
            let id = env.place_order(a, Side::Bid, 1, 1, Some(10 + i as u32)).unwrap();
            items.push((false, id));
        }
    }
    env.step(&mut rng);
    items.iter().map(|(is_cancel, id)| {
        let o = env.order(*id);
        (if *is_cancel { o.end_time - start } else { o.arr_time - start }) as usize
    }).collect()
}

/// instructions that refer to an order placed in the same step: `n - 2` new orders, a cancel of a resting
/// order, and a cancel (or modify) of the last of the new orders. Every position but the last item's is
/// read from an arrival or end time; the last item's is its end time when the cancel took effect and
/// otherwise the one slot nobody else occupies.
fn env_same_step(seed: u64, n: usize, modify: bool) -> Vec<usize> {
    let mut env: Env<1> = Env::new(1000, 1, 1_000_000, true);
    let mut rng = Xoroshiro128StarStar::seed_from_u64(seed ^ 0x2545F4914F6CDD1D);
    let r = env.place_order(Side::Ask, 1, 0, Some(500)).unwrap();
    env.step(&mut rng);
    let start = env.get_orderbook().get_time();
    let mut ids = Vec::new();
    for i in 0..n - 2 { ids.push(env.place_order(Side::Bid, 1 + (i as u32 % 3), 1, Some(10 + i as u32)).unwrap()); }
    env.cancel_order(r);
    let c = *ids.last().unwrap();
    if modify { env.modify_order(c, Some(200), None); } else { env.cancel_order(c); }
    env.step(&mut rng);
    let mut pos: Vec<usize> = ids.iter().map(|&i| (env.order(i).arr_time - start) as usize).collect();
    pos.push((env.order(r).end_time - start) as usize);
    let oc = env.order(c);
    if !modify && oc.end_time != u64::MAX && oc.end_time >= start {
        pos.push((oc.end_time - start) as usize);
    } else {
        let mut seen = vec![false; n];
        for &p in &pos { if p < n { seen[p] = true; } }
        pos.push((0..n).find(|&k| !seen[k]).unwrap_or(n));
    }
    pos
}
fn env_same_step_cancel(seed: u64, n: usize) -> Vec<usize> { env_same_step(seed, n, false) }
fn env_same_step_modify(seed: u64, n: usize) -> Vec<usize> { env_same_step(seed, n, true) }

/// large batches (hundreds of instructions): positions of 16 tracked items (the first and the last eight
/// submitted) of a batch of `n` new orders, on Env or on a 2-asset MarketEnv with the assets alternating
fn large_batch_tracked(seed: u64, n: usize, market: bool) -> Vec<usize> {
    let mut rng = Xoroshiro128StarStar::seed_from_u64(seed ^ 0x9FB21C651E98DF25);
    let tracked: Vec<usize> = (0..8).chain(n - 8..n).collect();
    if market {
        let mut env: MarketEnv<2, 1> = MarketEnv::new(0, [1, 1], 1_000_000, true);
        let ids: Vec<(usize, usize)> = (0..n).map(|i| env.place_order(i % 2, Side::Bid, 1, 1, Some(10 + (i as u32 % 50))).unwrap()).collect();
        env.step(&mut rng);
        tracked.iter().map(|&i| env.order(ids[i]).arr_time as usize).collect()
    } else {
        let mut env: Env<1> = Env::new(0, 1, 1_000_000, true);
        let ids: Vec<usize> = (0..n).map(|i| env.place_order(Side::Bid, 1, 1, Some(10 + (i as u32 % 50))).unwrap()).collect();
        env.step(&mut rng);
        tracked.iter().map(|&i| env.order(ids[i]).arr_time as usize).collect()
    }
}

pub fn run(seeds_small: u64, seeds_large: u64, base: u64) -> (Vec<String>, String) {
    let mut fails = Vec::new();
    let mut summary = Vec::new();
    // how many cells are tested in total (for the union bound)
    let mut cells = 0.0;
    for n in 2..=6 { cells += 6.0 * fact(n) as f64; }
    for n in [8usize, 16, 32, 64] { cells += 6.0 * (n * n) as f64 * 2.0; }
    cells += 2.0 * 2.0 * (120.0 + 16.0);
    for (label, f) in [("Env", env_positions as fn(u64, usize) -> Vec<usize>), ("MarketEnv-mixed", menv_positions as fn(u64, usize) -> Vec<usize>),
                       ("Env (trading disabled)", env_positions_off as fn(u64, usize) -> Vec<usize>),
                       ("MarketEnv-mixed (trading disabled)", menv_positions_off as fn(u64, usize) -> Vec<usize>),
                       ("Env-cancel-of-same-step-order", env_same_step_cancel as fn(u64, usize) -> Vec<usize>),
                       ("Env-modify-of-same-step-order", env_same_step_modify as fn(u64, usize) -> Vec<usize>)] {
        for n in 2..=6usize {
            if n < 3 && label.starts_with("Env-") { continue; }
            let k = fact(n);
            let mut counts = vec![0u64; k];
            for s in 0..seeds_small {
                let pos = f(base.wrapping_add(s.wrapping_mul(0x9E3779B97F4A7C15)), n);
                let mut seen = vec![false; n];
                for &p in &pos { if p >= n || seen[p] { fails.push(format!("{} n={}: positions {:?} are not a permutation (seed index {})", label, n, pos, s)); return (fails, String::new()); } seen[p] = true; }
                counts[perm_index(&pos)] += 1;
            }
            let p = 1.0 / k as f64;
            let b = bound(seeds_small as f64, p, cells);
            let exp = seeds_small as f64 * p;
            let worst = counts.iter().map(|&c| (c as f64 - exp).abs()).fold(0.0, f64::max);
            summary.push(format!("{{\"target\":\"{}\",\"n\":{},\"steps\":{},\"permutations\":{},\"expected\":{:.1},\"max_deviation\":{:.1},\"bound\":{:.1}}}", label, n, seeds_small, k, exp, worst, b));
            if worst > b { fails.push(format!("{} batch size {}: permutation counts {:?} deviate by {:.0} from {:.0} (bound {:.0}) over {} seeded steps", label, n, counts, worst, exp, b, seeds_small)); }
        }
        for n in [8usize, 16, 32, 64] {
            let mut table = vec![0u64; n * n];
            let mut pair = vec![0u64; n * n];
            for s in 0..seeds_large {
                let pos = f(base.wrapping_add(7).wrapping_add(s.wrapping_mul(0xD1B54A32D192ED03)), n);
                for (item, &p) in pos.iter().enumerate() { if p < n { table[item * n + p] += 1; } }
                for i in 0..n { for j in i + 1..n { if pos[i] < pos[j] { pair[i * n + j] += 1; } } }
            }
            let b1 = bound(seeds_large as f64, 1.0 / n as f64, cells);
            let e1 = seeds_large as f64 / n as f64;
            let w1 = table.iter().map(|&c| (c as f64 - e1).abs()).fold(0.0, f64::max);
            let b2 = bound(seeds_large as f64, 0.5, cells);
            let e2 = seeds_large as f64 / 2.0;
            let mut w2: f64 = 0.0;
            for i in 0..n { for j in i + 1..n { w2 = w2.max((pair[i * n + j] as f64 - e2).abs()); } }
            summary.push(format!("{{\"target\":\"{}\",\"n\":{},\"steps\":{},\"position_table_max_deviation\":{:.1},\"position_bound\":{:.1},\"pairwise_max_deviation\":{:.1},\"pairwise_bound\":{:.1}}}", label, n, seeds_large, w1, b1, w2, b2));
            if w1 > b1 { fails.push(format!("{} batch size {}: position-by-item table deviates by {:.0} from {:.0} (bound {:.0})", label, n, w1, e1, b1)); }
            if w2 > b2 { fails.push(format!("{} batch size {}: pairwise-order table deviates by {:.0} from {:.0} (bound {:.0})", label, n, w2, e2, b2)); }
        }
    }
    // large batches: pairwise order and "lands in the first half" of 16 tracked items
    let seeds_big = (seeds_large / 12).max(400);
    for (label, market) in [("Env-large-batch", false), ("MarketEnv-large-batch (assets alternating)", true)] {
        for n in [300usize, 700] {
            let mut pair = vec![0u64; 16 * 16];
            let mut first_half = vec![0u64; 16];
            for s in 0..seeds_big {
                let pos = large_batch_tracked(base.wrapping_add(13).wrapping_add(s.wrapping_mul(0xA0761D6478BD642F)), n, market);
                if pos.iter().any(|&p| p >= n) { fails.push(format!("{} n={}: a tracked instruction was stamped outside the batch: {:?}", label, n, pos)); return (fails, String::new()); }
                for i in 0..16 { if pos[i] < n / 2 { first_half[i] += 1; } for j in i + 1..16 { if pos[i] < pos[j] { pair[i * 16 + j] += 1; } } }
            }
            let b = bound(seeds_big as f64, 0.5, cells);
            let e = seeds_big as f64 / 2.0;
            let mut w: f64 = first_half.iter().map(|&c| (c as f64 - e).abs()).fold(0.0, f64::max);
            let wf = w;
            for i in 0..16 { for j in i + 1..16 { w = w.max((pair[i * 16 + j] as f64 - e).abs()); } }
            summary.push(format!("{{\"target\":\"{}\",\"n\":{},\"steps\":{},\"first_half_max_deviation\":{:.1},\"pairwise_max_deviation\":{:.1},\"bound\":{:.1}}}", label, n, seeds_big, wf, w, b));
            if w > b { fails.push(format!("{} batch size {}: pairwise-order / first-half counts of the tracked instructions deviate by {:.0} from {:.0} (bound {:.0}) over {} seeded steps", label, n, w, e, b, seeds_big)); }
        }
    }
    (fails, format!("[{}]", summary.join(",")))
}
