//! Shared pieces of the correspondence harness: a private PRNG (every random
//! choice of a run derives from VERIF_SEED), the operation type with its flat
//! numeric encoding (mirrors coq/Model/Codec.v) and the canonical observation
//! printer.
use bourse_book::types::{Event, Order, Side, Status, Trade};
use bourse_book::{OrderBook, OrderError};
use std::fmt::Write as _;
use std::panic::{catch_unwind, AssertUnwindSafe};

pub mod gen;
pub mod snap;
pub mod envdrive;
pub mod shufstats;
pub mod agentdrive;
pub mod simcheck;

/// splitmix64: the harness's own generator
#[derive(Clone)]
pub struct Sm(pub u64);
impl Sm {
    pub fn next(&mut self) -> u64 {
        self.0 = self.0.wrapping_add(0x9E3779B97F4A7C15);
        let mut z = self.0;
        z = (z ^ (z >> 30)).wrapping_mul(0xBF58476D1CE4E5B9);
        z = (z ^ (z >> 27)).wrapping_mul(0x94D049BB133111EB);
        z ^ (z >> 31)
    }
    pub fn below(&mut self, n: u64) -> u64 {
        if n == 0 { 0 } else { self.next() % n }
    }
    pub fn chance(&mut self, num: u64, den: u64) -> bool {
        self.below(den) < num
    }
    pub fn pick<'a, T>(&mut self, xs: &'a [T]) -> &'a T {
        &xs[self.below(xs.len() as u64) as usize]
    }
    pub fn fork(&mut self, tag: u64) -> Sm {
        Sm(self.next() ^ tag.wrapping_mul(0xD6E8FEB86659FD93))
    }
}

#[derive(Clone, Debug, PartialEq)]
pub enum Op {
    Create { bid: bool, vol: u32, trader: u32, price: Option<u32> },
    CreatePlace { bid: bool, vol: u32, trader: u32, price: Option<u32> },
    Place(usize),
    Cancel(usize),
    Modify(usize, Option<u32>, Option<u32>),
    EvNew(usize),
    EvCancel(usize),
    EvModify(usize, Option<u32>, Option<u32>),
    SetTime(u64),
    Enable,
    Disable,
    ResetTvol,
    Reload,
}

fn opt(x: Option<u32>) -> String {
    match x { Some(v) => format!("1 {}", v), None => "0 0".into() }
}

impl Op {
    pub fn encode(&self) -> String {
        match self {
            Op::Create { bid, vol, trader, price } => format!("0 {} {} {} {}", *bid as u8, vol, trader, opt(*price)),
            Op::CreatePlace { bid, vol, trader, price } => format!("1 {} {} {} {}", *bid as u8, vol, trader, opt(*price)),
            Op::Place(id) => format!("2 {}", id),
            Op::Cancel(id) => format!("3 {}", id),
            Op::Modify(id, p, v) => format!("4 {} {} {}", id, opt(*p), opt(*v)),
            Op::EvNew(id) => format!("5 {}", id),
            Op::EvCancel(id) => format!("6 {}", id),
            Op::EvModify(id, p, v) => format!("7 {} {} {}", id, opt(*p), opt(*v)),
            Op::SetTime(t) => format!("8 {}", t),
            Op::Enable => "9".into(),
            Op::Disable => "10".into(),
            Op::ResetTvol => "11".into(),
            Op::Reload => "12".into(),
        }
    }
    pub fn decode(s: &str) -> Option<Op> {
        let v: Vec<u64> = s.split_whitespace().map(|x| x.parse().ok()).collect::<Option<_>>()?;
        let o = |h: u64, x: u64| if h == 0 { None } else { Some(x as u32) };
        Some(match v.as_slice() {
            [0, b, vol, tr, hp, p] => Op::Create { bid: *b == 1, vol: *vol as u32, trader: *tr as u32, price: o(*hp, *p) },
            [1, b, vol, tr, hp, p] => Op::CreatePlace { bid: *b == 1, vol: *vol as u32, trader: *tr as u32, price: o(*hp, *p) },
            [2, id] => Op::Place(*id as usize),
            [3, id] => Op::Cancel(*id as usize),
            [4, id, hp, p, hv, vv] => Op::Modify(*id as usize, o(*hp, *p), o(*hv, *vv)),
            [5, id] => Op::EvNew(*id as usize),
            [6, id] => Op::EvCancel(*id as usize),
            [7, id, hp, p, hv, vv] => Op::EvModify(*id as usize, o(*hp, *p), o(*hv, *vv)),
            [8, t] => Op::SetTime(*t),
            [9] => Op::Enable,
            [10] => Op::Disable,
            [11] => Op::ResetTvol,
            [12] => Op::Reload,
            _ => return None,
        })
    }
}

pub fn side_of(bid: bool) -> Side { if bid { Side::Bid } else { Side::Ask } }
pub fn side_num(s: Side) -> u8 { match s { Side::Bid => 1, Side::Ask => 0 } }
pub fn status_num(s: Status) -> u8 { s.into() }

pub fn push_order(out: &mut String, o: &Order) {
    let _ = write!(out, " {} {} {} {} {} {} {} {} {}", side_num(o.side), status_num(o.status), o.arr_time,
        o.end_time, o.vol, o.start_vol, o.price, o.trader_id, o.order_id);
}
pub fn push_trade(out: &mut String, t: &Trade) {
    let _ = write!(out, " {} {} {} {} {} {}", t.t, side_num(t.side), t.price, t.vol, t.active_order_id, t.passive_order_id);
}

/// Canonical observation line (field order = coq/Model/Codec.v `enc_obs`).
pub fn observe<const L: usize>(b: &OrderBook<L>) -> String {
    let mut s = String::with_capacity(512);
    let (bid, ask) = b.bid_ask();
    let bbvo = b.bid_best_vol_and_orders();
    let abvo = b.ask_best_vol_and_orders();
    let _ = write!(s, "{} {} {} {} {} {} {} {} {} {} {} {} {}", b.get_time(), b.get_trade_vol(), bid, ask,
        b.bid_vol(), b.ask_vol(), b.bid_best_vol(), b.ask_best_vol(), bbvo.0, bbvo.1, abvo.0, abvo.1, L);
    for (v, c) in b.bid_levels().iter() { let _ = write!(s, " {} {}", v, c); }
    for (v, c) in b.ask_levels().iter() { let _ = write!(s, " {} {}", v, c); }
    let l1 = b.level_1_data();
    let _ = write!(s, " {} {} {} {} {} {} {} {}", l1.bid_price, l1.ask_price, l1.bid_vol, l1.ask_vol,
        l1.bid_touch_vol, l1.ask_touch_vol, l1.bid_touch_orders, l1.ask_touch_orders);
    let l2 = b.level_2_data();
    let _ = write!(s, " {} {} {} {}", l2.bid_price, l2.ask_price, l2.bid_vol, l2.ask_vol);
    for (v, c) in l2.bid_price_levels.iter() { let _ = write!(s, " {} {}", v, c); }
    for (v, c) in l2.ask_price_levels.iter() { let _ = write!(s, " {} {}", v, c); }
    let _ = write!(s, " {}", b.mid_price().to_bits());
    let orders = b.get_orders();
    let _ = write!(s, " {}", orders.len());
    for o in orders { push_order(&mut s, o); }
    let trades = b.get_trades();
    let _ = write!(s, " {}", trades.len());
    for t in trades { push_trade(&mut s, t); }
    s
}

pub enum Outcome { None, Created(usize), PriceError(u32, u32), Panic }
impl Outcome {
    pub fn encode(&self) -> String {
        match self {
            Outcome::None => "0".into(),
            Outcome::Created(id) => format!("1 {}", id),
            Outcome::PriceError(p, t) => format!("2 {} {}", p, t),
            Outcome::Panic => "9".into(),
        }
    }
}

fn created(r: Result<usize, OrderError>) -> Outcome {
    match r {
        Ok(id) => Outcome::Created(id),
        Err(OrderError::PriceError { price, tick_size }) => Outcome::PriceError(price, tick_size),
    }
}

/// Apply one operation to the real book; a panic anywhere (in the operation
/// or in a getter afterwards) is the outcome `Panic`.
pub fn apply<const L: usize>(book: &mut OrderBook<L>, op: &Op) -> (Outcome, Option<String>) {
    let r = catch_unwind(AssertUnwindSafe(|| {
        let out = match op {
            Op::Create { bid, vol, trader, price } => created(book.create_order(side_of(*bid), *vol, *trader, *price)),
            Op::CreatePlace { bid, vol, trader, price } => created(book.create_and_place_order(side_of(*bid), *vol, *trader, *price)),
            Op::Place(id) => { book.place_order(*id); Outcome::None }
            Op::Cancel(id) => { book.cancel_order(*id); Outcome::None }
            Op::Modify(id, p, v) => { book.modify_order(*id, *p, *v); Outcome::None }
            Op::EvNew(id) => { book.process_event(Event::New { order_id: *id }); Outcome::None }
            Op::EvCancel(id) => { book.process_event(Event::Cancellation { order_id: *id }); Outcome::None }
            Op::EvModify(id, p, v) => { book.process_event(Event::Modify { order_id: *id, new_price: *p, new_vol: *v }); Outcome::None }
            Op::SetTime(t) => { book.set_time(*t); Outcome::None }
            Op::Enable => { book.enable_trading(); Outcome::None }
            Op::Disable => { book.disable_trading(); Outcome::None }
            Op::ResetTvol => { book.reset_trade_vol(); Outcome::None }
            Op::Reload => {
                let txt = serde_json::to_string(&*book).unwrap();
                *book = serde_json::from_str::<OrderBook<L>>(&txt).unwrap();
                Outcome::None
            }
        };
        let obs = observe(book);
        (out, obs)
    }));
    match r {
        Ok((o, s)) => (o, Some(s)),
        Err(_) => (Outcome::Panic, None),
    }
}
