//! C07: JSON snapshots. Text level (in memory and through files, pretty and
//! compact, overwriting one path with documents of varying length), lock-step
//! continuation of the reloaded object, and every truncation offset.
use crate::gen::{family, Family, PriceModel};
use crate::{apply, observe, Op, Sm};
use bourse_book::types::{Side, Status};
use bourse_book::{Market, OrderBook};
use std::panic::{catch_unwind, AssertUnwindSafe};

pub struct SnapStats {
    pub points: u64, pub files: u64, pub offsets: u64, pub cont_ops: u64, pub market_points: u64,
    pub status_seen: [u64; 5], pub trading_off_points: u64, pub fails: Vec<String>, pub samples: Vec<String>,
}

fn random_op<const L: usize>(rng: &mut Sm, b: &OrderBook<L>, pm: &PriceModel, fam: &Family) -> Op {
    let n = b.get_orders().len();
    let pick = |rng: &mut Sm, want: Status| -> Option<usize> {
        if n == 0 { return None; }
        let c: Vec<usize> = (0..n).filter(|i| b.order(*i).status == want).collect();
        if !c.is_empty() && rng.chance(4, 5) { Some(*rng.pick(&c)) } else { Some(rng.below(n as u64) as usize) }
    };
    let v = 1 + rng.below(6) as u32;
    match rng.below(100) {
        0..=39 => Op::CreatePlace { bid: rng.chance(1, 2), vol: v, trader: rng.below(4) as u32, price: Some(pm.price(rng)) },
        40..=46 => Op::CreatePlace { bid: rng.chance(1, 2), vol: v, trader: 5, price: None },
        47..=54 => Op::Create { bid: rng.chance(1, 2), vol: v, trader: 6, price: if rng.chance(1, 4) { None } else { Some(pm.price(rng)) } },
        55..=60 => pick(rng, Status::New).map(Op::Place).unwrap_or(Op::SetTime(b.get_time() + 1)),
        61..=72 => pick(rng, Status::Active).map(Op::Cancel).unwrap_or(Op::SetTime(b.get_time() + 1)),
        73..=84 => match pick(rng, Status::Active) {
            Some(i) => {
                let cur = b.order(i).vol;
                let p = if rng.chance(1, 2) { None } else { Some(pm.price(rng)) };
                let nv = match rng.below(4) { 0 => None, 1 => Some(cur.saturating_sub(1).max(1)), 2 => Some(cur.max(1)), _ => Some(cur.saturating_add(2)) };
                Op::Modify(i, p, nv)
            }
            None => Op::SetTime(b.get_time() + 1),
        },
        85..=89 if fam.toggles => if rng.chance(1, 2) { Op::Disable } else { Op::Enable },
        90..=91 => Op::ResetTvol,
        _ => Op::SetTime(b.get_time() + if rng.chance(1, 3) { 0 } else { 1 + rng.below(3) }),
    }
}

fn load_text<const L: usize>(txt: &str) -> Result<OrderBook<L>, String> {
    match catch_unwind(AssertUnwindSafe(|| serde_json::from_str::<OrderBook<L>>(txt))) {
        Ok(Ok(b)) => Ok(b),
        Ok(Err(e)) => Err(format!("error: {}", e)),
        Err(_) => Err("panic".into()),
    }
}

pub fn book_snapshots<const L: usize>(seed: u64, count: u64, len: usize, dir: &str, trunc_files: u64, st: &mut SnapStats) {
    let fam = family("C07");
    for i in 0..count {
        let mut rng = Sm(seed ^ (i + 1).wrapping_mul(0xA24BAED4963EE407));
        let tick = 1 + rng.below(10) as u32;
        let widep = rng.chance(1, 3);
        let pm = PriceModel::new(&mut rng, tick, widep);
        let t0 = rng.below(1000);
        let mut book = OrderBook::<L>::new(t0, tick, !rng.chance(1, 5));
        let mut shadow: Option<OrderBook<L>> = None;
        let path = format!("{}/book_{}_{}.json", dir, L, i % 4);   // few paths: documents of varying length overwrite each other
        let mut trace = format!("seed={} script={} L={} tick={}", seed, i, L, tick);
        let mut trading = true;
        for k in 0..len {
            let op = random_op(&mut rng, &book, &pm, &fam);
            match op { Op::Disable => trading = false, Op::Enable => trading = true, _ => {} }
            if st.samples.len() < 2 || st.fails.is_empty() { trace.push_str(&format!(" | {}", op.encode())); }
            let (_, o1) = apply(&mut book, &op);
            if o1.is_none() { break; }
            if let Some(sh) = shadow.as_mut() {
                let (_, o2) = apply(sh, &op);
                st.cont_ops += 1;
                if o1 != o2 {
                    st.fails.push(format!("reloaded book diverges from the original under continuation at op {}: {}", k, trace));
                    return;
                }
            }
            if rng.chance(1, 4) {
                // snapshot point
                st.points += 1;
                if !trading { st.trading_off_points += 1; }
                for o in book.get_orders() { st.status_seen[u8::from(o.status) as usize] += 1; }
                let compact = serde_json::to_string(&book).unwrap();
                let pretty = serde_json::to_string_pretty(&book).unwrap();
                let want = observe(&book);
                for (name, txt) in [("compact", &compact), ("pretty", &pretty)] {
                    match load_text::<L>(txt) {
                        Ok(b2) => {
                            if observe(&b2) != want { st.fails.push(format!("in-memory {} reload differs from the original: {}", name, trace)); return; }
                            if serde_json::to_string(&b2).unwrap() != compact { st.fails.push(format!("re-serialised {} reload differs textually: {}", name, trace)); return; }
                        }
                        Err(e) => { st.fails.push(format!("in-memory {} reload failed ({}): {}", name, e, trace)); return; }
                    }
                }
                // through a file, overwriting whatever was there
                let pretty_flag = rng.chance(1, 2);
                if let Err(e) = book.save_json(&path, pretty_flag) { st.fails.push(format!("save_json failed: {} {}", e, trace)); return; }
                st.files += 1;
                let on_disk = std::fs::read_to_string(&path).unwrap_or_default();
                if on_disk != *(if pretty_flag { &pretty } else { &compact }) {
                    st.fails.push(format!("file written by save_json(pretty={}) is not the serialised document (len {} vs {}): {}", pretty_flag, on_disk.len(), if pretty_flag { pretty.len() } else { compact.len() }, trace));
                    return;
                }
                match catch_unwind(AssertUnwindSafe(|| OrderBook::<L>::load_json(&path))) {
                    Ok(Ok(b2)) => {
                        if observe(&b2) != want { st.fails.push(format!("file reload differs from the original: {}", trace)); return; }
                        shadow = Some(b2);
                    }
                    Ok(Err(e)) => { st.fails.push(format!("load_json of a file just written failed ({}): {}", e, trace)); return; }
                    Err(_) => { st.fails.push(format!("load_json panicked: {}", trace)); return; }
                }
                // truncation: every byte offset
                if st.files <= trunc_files {
                    let bytes = on_disk.as_bytes();
                    let tp = format!("{}/trunc_{}.json", dir, L);
                    for cut in 0..bytes.len() {
                        std::fs::write(&tp, &bytes[..cut]).unwrap();
                        st.offsets += 1;
                        match catch_unwind(AssertUnwindSafe(|| OrderBook::<L>::load_json(&tp))) {
                            Ok(Err(_)) => {}
                            Ok(Ok(_)) => { st.fails.push(format!("snapshot truncated at byte {} of {} was loaded as a book: {}", cut, bytes.len(), trace)); return; }
                            Err(_) => { st.fails.push(format!("loading a snapshot truncated at byte {} panicked: {}", cut, trace)); return; }
                        }
                    }
                }
            }
        }
        if st.samples.len() < 2 { st.samples.push(trace); }
    }
}

pub fn market_snapshots<const A: usize>(seed: u64, count: u64, len: usize, dir: &str, st: &mut SnapStats) {
    for i in 0..count {
        let mut rng = Sm(seed ^ (i + 7).wrapping_mul(0x9FB21C651E98DF25));
        let ticks: [u32; A] = core::array::from_fn(|_| 1 + rng.below(5) as u32);
        let mut m = Market::<A, 3>::new(rng.below(100), ticks, true);
        let mut shadow: Option<Market<A, 3>> = None;
        let path = format!("{}/market_{}_{}.json", dir, A, i % 3);
        let obs = |m: &Market<A, 3>| -> String { (0..A).map(|a| observe(m.get_order_book(a))).collect::<Vec<_>>().join(" ; ") };
        for k in 0..len {
            let a = rng.below(A as u64) as usize;
            let n = m.get_orders(a).len();
            let act = |mk: &mut Market<A, 3>, rng: &mut Sm| {
                let mut r = rng.clone();
                match r.below(10) {
                    0..=5 => { let _ = mk.create_and_place_order(a, if r.chance(1, 2) { Side::Bid } else { Side::Ask }, 1 + r.below(5) as u32, 1, Some((8 + r.below(5) as u32) * ticks[a])); }
                    6 => { let _ = mk.create_and_place_order(a, if r.chance(1, 2) { Side::Bid } else { Side::Ask }, 1 + r.below(5) as u32, 2, None); }
                    7 if n > 0 => mk.cancel_order((a, r.below(n as u64) as usize)),
                    8 if n > 0 => mk.modify_order((a, r.below(n as u64) as usize), Some((8 + r.below(5) as u32) * ticks[a]), Some(1 + r.below(6) as u32)),
                    _ => { let t = mk.get_time() + 1; mk.set_time(t) }
                }
            };
            act(&mut m, &mut rng);
            if let Some(sh) = shadow.as_mut() {
                act(sh, &mut rng);
                st.cont_ops += 1;
                if obs(sh) != obs(&m) { st.fails.push(format!("reloaded market diverges under continuation: seed={} script={} A={} op={}", seed, i, A, k)); return; }
            }
            let _ = rng.next();
            if rng.chance(1, 4) {
                st.market_points += 1;
                let want = obs(&m);
                let txt = serde_json::to_string(&m).unwrap();
                match catch_unwind(AssertUnwindSafe(|| serde_json::from_str::<Market<A, 3>>(&txt))) {
                    Ok(Ok(m2)) => if obs(&m2) != want { st.fails.push(format!("in-memory market reload differs: seed={} script={} A={}", seed, i, A)); return; },
                    _ => { st.fails.push(format!("in-memory market reload failed: seed={} script={} A={}", seed, i, A)); return; }
                }
                let pretty = rng.chance(1, 2);
                if m.save_json(&path, pretty).is_err() { st.fails.push("market save_json failed".into()); return; }
                st.files += 1;
                match catch_unwind(AssertUnwindSafe(|| Market::<A, 3>::load_json(&path))) {
                    Ok(Ok(m2)) => { if obs(&m2) != want { st.fails.push(format!("market file reload differs: seed={} script={} A={}", seed, i, A)); return; } shadow = Some(m2); }
                    Ok(Err(e)) => { st.fails.push(format!("market load_json of a file just written failed ({}): seed={} script={} A={} op={}", e, seed, i, A, k)); return; }
                    Err(_) => { st.fails.push("market load_json panicked".into()); return; }
                }
                if st.market_points <= 3 {
                    let bytes = std::fs::read(&path).unwrap();
                    let tp = format!("{}/mtrunc_{}.json", dir, A);
                    for cut in 0..bytes.len() {
                        std::fs::write(&tp, &bytes[..cut]).unwrap();
                        st.offsets += 1;
                        match catch_unwind(AssertUnwindSafe(|| Market::<A, 3>::load_json(&tp))) {
                            Ok(Err(_)) => {}
                            _ => { st.fails.push(format!("truncated market snapshot (byte {}) loaded or panicked", cut)); return; }
                        }
                    }
                }
            }
        }
    }
}
