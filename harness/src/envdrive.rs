//! Driving Env<L>, MarketEnv<A, L> and Market<A, L> with generated scripts
//! (protocol lines M/S/O/R/E/F for the extracted model runner).
use crate::{observe, side_of, Op, Outcome, Sm};
use bourse_book::types::{Level2Data, Side};
use bourse_book::{Market, OrderError};
use bourse_de::{Env, MarketEnv};
use rand::RngCore;
use rand_xoshiro::rand_core::SeedableRng;
use rand_xoshiro::Xoroshiro128StarStar;
use crate::agentdrive::{Built, CountRng};
use bourse_de::agents::{Agent, MarketAgent};
use std::fmt::Write as _;
use std::io::Write;
use std::panic::{catch_unwind, AssertUnwindSafe};

#[derive(Clone, Debug)]
pub enum EOp {
    Place { a: usize, bid: bool, vol: u32, trader: u32, price: Option<u32> },
    Cancel(usize, usize),
    Modify(usize, usize, Option<u32>, Option<u32>),
    Step,
    Enable,
    Disable,
    Direct(usize, Op),
    SetTime(u64),
    ResetTvols,
}

fn opt(x: Option<u32>) -> String { match x { Some(v) => format!("1 {}", v), None => "0 0".into() } }

impl EOp {
    pub fn encode(&self) -> String {
        match self {
            EOp::Place { a, bid, vol, trader, price } => format!("0 {} {} {} {} {}", a, *bid as u8, vol, trader, opt(*price)),
            EOp::Cancel(a, id) => format!("1 {} {}", a, id),
            EOp::Modify(a, id, p, v) => format!("2 {} {} {} {}", a, id, opt(*p), opt(*v)),
            EOp::Step => "3".into(),
            EOp::Enable => "4".into(),
            EOp::Disable => "5".into(),
            EOp::Direct(a, o) => format!("6 {} {}", a, o.encode()),
            EOp::SetTime(t) => format!("7 {}", t),
            EOp::ResetTvols => "8".into(),
        }
    }
}

impl EOp {
    pub fn decode(s: &str) -> Option<EOp> {
        let v: Vec<u64> = s.split_whitespace().map(|x| x.parse().ok()).collect::<Option<_>>()?;
        let o = |h: u64, x: u64| if h == 0 { None } else { Some(x as u32) };
        Some(match v.as_slice() {
            [0, a, b, vol, tr, hp, p] => EOp::Place { a: *a as usize, bid: *b == 1, vol: *vol as u32, trader: *tr as u32, price: o(*hp, *p) },
            [1, a, id] => EOp::Cancel(*a as usize, *id as usize),
            [2, a, id, hp, p, hv, vv] => EOp::Modify(*a as usize, *id as usize, o(*hp, *p), o(*hv, *vv)),
            [3] => EOp::Step, [4] => EOp::Enable, [5] => EOp::Disable,
            _ => return None,
        })
    }
}

fn push_l2<const L: usize>(s: &mut String, d: &Level2Data<L>) {
    let _ = write!(s, " {} {} {} {}", d.bid_price, d.ask_price, d.bid_vol, d.ask_vol);
    for (v, c) in d.bid_price_levels.iter() { let _ = write!(s, " {} {}", v, c); }
    for (v, c) in d.ask_price_levels.iter() { let _ = write!(s, " {} {}", v, c); }
}

fn push_series(s: &mut String, v: &[u32]) { for x in v { let _ = write!(s, " {}", x); } }

fn framed(obs: &str) -> String { format!(" {} {}", obs.split_whitespace().count(), obs) }

fn created<T>(r: Result<T, OrderError>, id: impl Fn(T) -> usize) -> Outcome {
    match r {
        Ok(x) => Outcome::Created(id(x)),
        Err(OrderError::PriceError { price, tick_size }) => Outcome::PriceError(price, tick_size),
    }
}

pub trait Target {
    fn kind(&self) -> u8;
    fn assets(&self) -> usize;
    fn apply(&mut self, op: &EOp, rng: &mut CountRng) -> Outcome;
    fn update_agent(&mut self, _b: &mut Built, _rng: &mut CountRng) { panic!("agents need an environment") }
    /// canonical observation; Err(text) when two accessors of the same data disagree
    fn observe(&self, rng: &CountRng) -> Result<String, String>;
    fn n_orders(&self, a: usize) -> usize;
    /// (resting bid volume, resting ask volume) of asset `a`, summed over its Active orders
    fn resting(&self, a: usize) -> (u64, u64);
    fn vol_of(&self, a: usize, id: usize) -> u32;
    fn status_of(&self, a: usize, id: usize) -> u8;
}

// ---------------------------------------------------------------- Env<L>
pub struct TEnv<const L: usize>(pub Env<L>);
impl<const L: usize> Target for TEnv<L> {
    fn kind(&self) -> u8 { 0 }
    fn assets(&self) -> usize { 1 }
    fn n_orders(&self, _a: usize) -> usize { self.0.get_orders().len() }
    fn resting(&self, _a: usize) -> (u64, u64) { let mut r = (0u64, 0u64); for o in self.0.get_orders() { if u8::from(o.status) == 1 { if bool::from(o.side) { r.0 += o.vol as u64 } else { r.1 += o.vol as u64 } } } r }
    fn vol_of(&self, _a: usize, id: usize) -> u32 { self.0.order(id).vol }
    fn status_of(&self, _a: usize, id: usize) -> u8 { self.0.order_status(id).into() }
    fn apply(&mut self, op: &EOp, rng: &mut CountRng) -> Outcome {
        match op {
            EOp::Place { bid, vol, trader, price, .. } => created(self.0.place_order(side_of(*bid), *vol, *trader, *price), |i| i),
            EOp::Cancel(_, id) => { self.0.cancel_order(*id); Outcome::None }
            EOp::Modify(_, id, p, v) => { self.0.modify_order(*id, *p, *v); Outcome::None }
            EOp::Step => { self.0.step(rng); Outcome::None }
            EOp::Enable => { self.0.enable_trading(); Outcome::None }
            EOp::Disable => { self.0.disable_trading(); Outcome::None }
            _ => panic!("not an Env operation"),
        }
    }
    fn update_agent(&mut self, b: &mut Built, rng: &mut CountRng) {
        // the built-in single-asset agents are written against `Env` = `Env<10>`
        let env: &mut dyn std::any::Any = &mut self.0;
        let env = env.downcast_mut::<Env<10>>().expect("agents need Env<10>");
        match b { Built::R(a) => a.update(env, rng), Built::N(a) => a.update(env, rng), Built::M(a) => a.update(env, rng), _ => panic!("market agent on Env") }
    }
    fn observe(&self, rng: &CountRng) -> Result<String, String> {
        let e = &self.0;
        let mut s = String::from("1");
        s.push_str(&framed(&observe(e.get_orderbook())));
        push_l2(&mut s, e.level_2_data());
        let tv = e.get_trade_vols();
        let _ = write!(s, " {}", tv.len());
        push_series(&mut s, tv);
        let h = e.get_level_2_data_history();
        let _ = write!(s, " {}", h.prices.0.len());
        push_series(&mut s, &h.prices.0); push_series(&mut s, &h.prices.1);
        push_series(&mut s, &h.volumes.0); push_series(&mut s, &h.volumes.1);
        for i in 0..L {
            push_series(&mut s, &h.volumes_at_levels.0[i]); push_series(&mut s, &h.orders_at_levels.0[i]);
            push_series(&mut s, &h.volumes_at_levels.1[i]); push_series(&mut s, &h.orders_at_levels.1[i]);
        }
        let _ = write!(s, " {}", rng.inner.clone().next_u64());
        // the other accessors of the same data must agree
        if *e.get_prices() != h.prices { return Err("get_prices differs from the level-2 history".into()); }
        if *e.get_volumes() != h.volumes { return Err("get_volumes differs from the level-2 history".into()); }
        let tvs = e.get_touch_volumes();
        if *tvs.0 != h.volumes_at_levels.0[0] || *tvs.1 != h.volumes_at_levels.1[0] { return Err("get_touch_volumes differs from level 0 of the history".into()); }
        let toc = e.get_touch_order_counts();
        if *toc.0 != h.orders_at_levels.0[0] || *toc.1 != h.orders_at_levels.1[0] { return Err("get_touch_order_counts differs from level 0 of the history".into()); }
        let bo = e.get_orderbook().get_orders();
        let eo = e.get_orders();
        if bo.len() != eo.len() || bo.iter().zip(eo.iter()).any(|(a, b)| a.order_id != b.order_id || a.vol != b.vol || a.status != b.status) { return Err("Env::get_orders differs from the book's".into()); }
        if e.get_trades().len() != e.get_orderbook().get_trades().len() { return Err("Env::get_trades differs from the book's".into()); }
        for (i, o) in eo.iter().enumerate() {
            if e.order(i).order_id != o.order_id || e.order_status(i) != o.status { return Err("Env::order/order_status differ from get_orders".into()); }
        }
        Ok(s)
    }
}

// ---------------------------------------------------------------- MarketEnv<A, L>
pub struct TMEnv<const A: usize, const L: usize>(pub MarketEnv<A, L>);
impl<const A: usize, const L: usize> Target for TMEnv<A, L> {
    fn kind(&self) -> u8 { 1 }
    fn assets(&self) -> usize { A }
    fn n_orders(&self, a: usize) -> usize { self.0.get_orders(a).len() }
    fn resting(&self, a: usize) -> (u64, u64) { let mut r = (0u64, 0u64); for o in self.0.get_orders(a) { if u8::from(o.status) == 1 { if bool::from(o.side) { r.0 += o.vol as u64 } else { r.1 += o.vol as u64 } } } r }
    fn vol_of(&self, a: usize, id: usize) -> u32 { self.0.order((a, id)).vol }
    fn status_of(&self, a: usize, id: usize) -> u8 { self.0.order_status((a, id)).into() }
    fn apply(&mut self, op: &EOp, rng: &mut CountRng) -> Outcome {
        match op {
            EOp::Place { a, bid, vol, trader, price } => {
                let want = *a;
                match self.0.place_order(*a, side_of(*bid), *vol, *trader, *price) {
                    Ok((aa, id)) => if aa == want { Outcome::Created(id) } else { Outcome::Created(usize::MAX - 1) },
                    Err(OrderError::PriceError { price, tick_size }) => Outcome::PriceError(price, tick_size),
                }
            }
            EOp::Cancel(a, id) => { self.0.cancel_order((*a, *id)); Outcome::None }
            EOp::Modify(a, id, p, v) => { self.0.modify_order((*a, *id), *p, *v); Outcome::None }
            EOp::Step => { self.0.step(rng); Outcome::None }
            EOp::Enable => { self.0.enable_trading(); Outcome::None }
            EOp::Disable => { self.0.disable_trading(); Outcome::None }
            _ => panic!("not a MarketEnv operation"),
        }
    }
    fn update_agent(&mut self, b: &mut Built, rng: &mut CountRng) {
        match b { Built::RM(a) => a.update(&mut self.0, rng), Built::NM(a) => a.update(&mut self.0, rng), Built::MM(a) => a.update(&mut self.0, rng), _ => panic!("single-asset agent on MarketEnv") }
    }
    fn observe(&self, rng: &CountRng) -> Result<String, String> {
        let e = &self.0;
        let mut s = format!("{}", A);
        for a in 0..A { s.push_str(&framed(&observe(e.get_market().get_order_book(a)))); }
        for a in 0..A { push_l2(&mut s, &e.level_2_data()[a]); }
        for a in 0..A { let tv = e.get_trade_vols(a); let _ = write!(s, " {}", tv.len()); push_series(&mut s, tv); }
        for a in 0..A {
            let h = e.get_level_2_data_history(a);
            let _ = write!(s, " {}", h.prices.0.len());
            push_series(&mut s, &h.prices.0); push_series(&mut s, &h.prices.1);
            push_series(&mut s, &h.volumes.0); push_series(&mut s, &h.volumes.1);
            for i in 0..L {
                push_series(&mut s, &h.volumes_at_levels.0[i]); push_series(&mut s, &h.orders_at_levels.0[i]);
                push_series(&mut s, &h.volumes_at_levels.1[i]); push_series(&mut s, &h.orders_at_levels.1[i]);
            }
            if *e.get_prices(a) != h.prices { return Err("get_prices differs from the level-2 history".into()); }
            if *e.get_volumes(a) != h.volumes { return Err("get_volumes differs from the level-2 history".into()); }
            let tvs = e.get_touch_volumes(a);
            if *tvs.0 != h.volumes_at_levels.0[0] || *tvs.1 != h.volumes_at_levels.1[0] { return Err("get_touch_volumes differs from level 0 of the history".into()); }
            let toc = e.get_touch_order_counts(a);
            if *toc.0 != h.orders_at_levels.0[0] || *toc.1 != h.orders_at_levels.1[0] { return Err("get_touch_order_counts differs from level 0 of the history".into()); }
            let eo = e.get_orders(a);
            let bo = e.get_market().get_order_book(a).get_orders();
            if bo.len() != eo.len() { return Err("MarketEnv::get_orders differs from the book's".into()); }
            if e.get_trades(a).len() != e.get_market().get_order_book(a).get_trades().len() { return Err("MarketEnv::get_trades differs from the book's".into()); }
            for (i, o) in eo.iter().enumerate() {
                if e.order((a, i)).order_id != o.order_id || e.order_status((a, i)) != o.status { return Err("MarketEnv::order/order_status differ".into()); }
            }
        }
        // all-asset queries of the market return each asset's own values in asset order
        market_queries_consistent(e.get_market())?;
        let _ = write!(s, " {}", rng.inner.clone().next_u64());
        Ok(s)
    }
}

fn market_queries_consistent<const A: usize, const L: usize>(m: &Market<A, L>) -> Result<(), String> {
    let (ba, bv, av, bbv, abv, bbvo, abvo, bl, al, tv, l2) = (m.bid_asks(), m.bid_vols(), m.ask_vols(), m.bid_best_vols(), m.ask_best_vols(),
        m.bid_best_vol_and_orders(), m.ask_best_vol_and_orders(), m.bid_levels(), m.ask_levels(), m.get_trade_vols(), m.level_2_data());
    for a in 0..A {
        let b = m.get_order_book(a);
        if b.get_time() != m.get_time() { return Err(format!("asset {} is not on the shared clock", a)); }
        let ok = ba[a] == b.bid_ask() && bv[a] == b.bid_vol() && av[a] == b.ask_vol() && bbv[a] == b.bid_best_vol() && abv[a] == b.ask_best_vol()
            && bbvo[a] == b.bid_best_vol_and_orders() && abvo[a] == b.ask_best_vol_and_orders() && bl[a] == b.bid_levels() && al[a] == b.ask_levels()
            && tv[a] == b.get_trade_vol();
        let d = b.level_2_data();
        let ok2 = l2[a].bid_price == d.bid_price && l2[a].ask_price == d.ask_price && l2[a].bid_vol == d.bid_vol && l2[a].ask_vol == d.ask_vol
            && l2[a].bid_price_levels == d.bid_price_levels && l2[a].ask_price_levels == d.ask_price_levels;
        if !(ok && ok2) { return Err(format!("an all-asset query of the market does not return asset {}'s own value", a)); }
        let os = m.get_orders(a);
        for (i, o) in os.iter().enumerate() { if m.order((a, i)).order_id != o.order_id { return Err("Market::order differs from get_orders".into()); } }
    }
    Ok(())
}

// ---------------------------------------------------------------- Market<A, L>
pub struct TMarket<const A: usize, const L: usize>(pub Market<A, L>);
impl<const A: usize, const L: usize> Target for TMarket<A, L> {
    fn kind(&self) -> u8 { 2 }
    fn assets(&self) -> usize { A }
    fn n_orders(&self, a: usize) -> usize { self.0.get_orders(a).len() }
    fn resting(&self, a: usize) -> (u64, u64) { let mut r = (0u64, 0u64); for o in self.0.get_orders(a) { if u8::from(o.status) == 1 { if bool::from(o.side) { r.0 += o.vol as u64 } else { r.1 += o.vol as u64 } } } r }
    fn vol_of(&self, a: usize, id: usize) -> u32 { self.0.order((a, id)).vol }
    fn status_of(&self, a: usize, id: usize) -> u8 { self.0.order((a, id)).status.into() }
    fn apply(&mut self, op: &EOp, _rng: &mut CountRng) -> Outcome {
        use bourse_book::types::Event;
        let m = &mut self.0;
        match op {
            EOp::Direct(a, o) => {
                let a = *a;
                let chk = |r: Result<(usize, usize), OrderError>| match r {
                    Ok((aa, id)) => if aa == a { Outcome::Created(id) } else { Outcome::Created(usize::MAX - 1) },
                    Err(OrderError::PriceError { price, tick_size }) => Outcome::PriceError(price, tick_size),
                };
                match o {
                    Op::Create { bid, vol, trader, price } => chk(m.create_order(a, side_of(*bid), *vol, *trader, *price)),
                    Op::CreatePlace { bid, vol, trader, price } => chk(m.create_and_place_order(a, side_of(*bid), *vol, *trader, *price)),
                    Op::Place(id) => { m.place_order((a, *id)); Outcome::None }
                    Op::Cancel(id) => { m.cancel_order((a, *id)); Outcome::None }
                    Op::Modify(id, p, v) => { m.modify_order((a, *id), *p, *v); Outcome::None }
                    Op::EvNew(id) => { m.process_event(Event::New { order_id: (a, *id) }); Outcome::None }
                    Op::EvCancel(id) => { m.process_event(Event::Cancellation { order_id: (a, *id) }); Outcome::None }
                    Op::EvModify(id, p, v) => { m.process_event(Event::Modify { order_id: (a, *id), new_price: *p, new_vol: *v }); Outcome::None }
                    _ => panic!("not a per-asset operation"),
                }
            }
            EOp::SetTime(t) => { m.set_time(*t); Outcome::None }
            EOp::Enable => { m.enable_trading(); Outcome::None }
            EOp::Disable => { m.disable_trading(); Outcome::None }
            EOp::ResetTvols => { m.reset_trade_vols(); Outcome::None }
            _ => panic!("not a Market operation"),
        }
    }
    fn observe(&self, rng: &CountRng) -> Result<String, String> {
        let mut s = format!("{}", A);
        for a in 0..A { s.push_str(&framed(&observe(self.0.get_order_book(a)))); }
        market_queries_consistent(&self.0)?;
        let _ = write!(s, " {}", rng.inner.clone().next_u64());
        Ok(s)
    }
}

// ---------------------------------------------------------------- script execution
pub struct EStats { pub scripts: u64, pub ops: u64, pub steps: u64, pub batch_hist: [u64; 9], pub trades: u64, pub panics: u64,
                    pub nontrivial: u64, pub overflow_batches: u64, pub samples: Vec<String>, pub kinds: [u64; 9] }
impl EStats { pub fn new() -> Self { EStats { scripts: 0, ops: 0, steps: 0, batch_hist: [0; 9], trades: 0, panics: 0, nontrivial: 0, overflow_batches: 0, samples: vec![], kinds: [0; 9] } } }

pub struct ERun<'a, W: Write> { pub w: &'a mut W, pub st: &'a mut EStats, pub dead: bool, pub text: String, batch: u64, step_size: u64, nontriv: bool }

impl<'a, W: Write> ERun<'a, W> {
    pub fn begin(w: &'a mut W, st: &'a mut EStats, id: u64, t: &dyn Target, l: usize, seed: u64, t0: u64, step: u64, trading: bool, ticks: &[u32], rng: &CountRng) -> Self {
        let hdr = format!("M {} {} {} {} {} {} {} {} {}", id, t.kind(), l, seed, t0, step, trading as u8, ticks.len(),
            ticks.iter().map(|x| x.to_string()).collect::<Vec<_>>().join(" "));
        let obs = t.observe(rng).unwrap_or_else(|e| format!("0 0 {}", e.len()));
        let _ = writeln!(w, "{}\nS {}", hdr, obs);
        ERun { w, st, dead: false, text: hdr, batch: 0, step_size: step, nontriv: false }
    }
    pub fn op(&mut self, t: &mut dyn Target, rng: &mut CountRng, op: &EOp) {
        if self.dead { return; }
        let enc = op.encode();
        let k: usize = enc.split(' ').next().unwrap().parse().unwrap();
        self.st.kinds[k] += 1;
        self.st.ops += 1;
        if self.st.samples.len() < 3 { self.text.push_str(" | "); self.text.push_str(&enc); }
        let r = catch_unwind(AssertUnwindSafe(|| { let out = t.apply(op, rng); let obs = t.observe(rng); (out, obs) }));
        match op {
            EOp::Step => {
                self.st.steps += 1; self.st.batch_hist[(self.batch as usize).min(8)] += 1;
                if self.batch > self.step_size { self.st.overflow_batches += 1; }
                if self.batch >= 2 { self.nontriv = true; }
                self.batch = 0;
            }
            EOp::Cancel(..) | EOp::Modify(..) => self.batch += 1,
            EOp::Place { .. } => if let Ok((Outcome::Created(_), _)) = &r { self.batch += 1 },
            _ => {}
        }
        match r {
            Ok((out, Ok(obs))) => { let _ = writeln!(self.w, "O {}\nR {}\nS {}", enc, out.encode(), obs); }
            Ok((out, Err(e))) => { let _ = writeln!(self.w, "O {}\nR {}\nF {}", enc, out.encode(), e); self.dead = true; }
            Err(_) => { let _ = writeln!(self.w, "O {}\nR 9", enc); self.dead = true; self.st.panics += 1; }
        }
    }
    /// `[20 k]`: update agent k
    pub fn agent(&mut self, t: &mut dyn Target, k: usize, b: &mut Built, rng: &mut CountRng) {
        if self.dead { return; }
        self.st.ops += 1;
        if self.st.samples.len() < 3 { self.text.push_str(&format!(" | 20 {}", k)); }
        let r = catch_unwind(AssertUnwindSafe(|| { t.update_agent(b, rng); t.observe(rng) }));
        self.batch += 1_000_000;
        match r {
            Ok(Ok(obs)) => { let _ = writeln!(self.w, "O 20 {}\nR 0\nS {}", k, obs); }
            Ok(Err(e)) => { let _ = writeln!(self.w, "O 20 {}\nR 0\nF {}", k, e); self.dead = true; }
            Err(_) => { let _ = writeln!(self.w, "O 20 {}\nR 9", k); self.dead = true; self.st.panics += 1; }
        }
    }
    pub fn end(self, t: &dyn Target) {
        let _ = writeln!(self.w, "E");
        self.st.scripts += 1;
        let _ = t;
        if self.nontriv { self.st.nontrivial += 1; }
        if self.st.samples.len() < 3 { self.st.samples.push(self.text); }
    }
}

#[derive(Clone, Copy)]
pub struct EnvFamily { pub max_batch: u64, pub small_step: bool, pub toggles: bool, pub rounds: usize, pub asym: bool, pub distinct_batch: bool, pub extreme: bool }

/// A random environment script: rounds of submissions followed by a step.
pub fn env_script<W: Write>(w: &mut W, st: &mut EStats, id: u64, t: &mut dyn Target, rng: &mut CountRng, g: &mut Sm,
                            l: usize, seed: u64, t0: u64, step: u64, trading: bool, ticks: &[u32], fam: &EnvFamily) {
    let a_n = t.assets();
    let mut run = ERun::begin(w, st, id, t, l, seed, t0, step, trading, ticks, rng);
    let centre: Vec<u32> = ticks.iter().map(|_| 20 + g.below(30) as u32).collect();
    for _ in 0..fam.rounds {
        if run.dead { break; }
        let nb = if fam.distinct_batch { 2 + g.below(fam.max_batch - 1) } else { g.below(fam.max_batch + 1) };
        for _ in 0..nb {
            let a = g.below(a_n as u64) as usize;
            let n = t.n_orders(a);
            let roll = g.below(100);
            let tick = ticks[a];
            let price = |g: &mut Sm, bid: bool| -> u32 {
                let off = g.below(5) as u32;
                // extreme mode, tick dividing 2^32-1: some prices reflected about the middle of the u32 range
                if fam.extreme && u32::MAX % tick == 0 && g.chance(1, 4) { return u32::MAX - (centre[a] + off) * tick; }
                let k = if fam.asym { if bid { centre[a] - 1 - off } else { centre[a] + 2 + 2 * off } } else if g.chance(1, 3) { centre[a] + off - 2 } else if bid { centre[a] - off } else { centre[a] + off };
                k * tick
            };
            let op = if fam.distinct_batch || roll < 55 || n == 0 {
                let bid = g.chance(1, 2);
                let vol = if fam.extreme && g.chance(1, 8) { *g.pick(&[(1u32 << 31) - 1, 1u32 << 31, 3_000_000_000, u32::MAX - 3]) } else { 1 + g.below(if fam.asym { 9 } else { 5 }) as u32 };
                EOp::Place { a, bid, vol, trader: g.below(6) as u32, price: Some(price(g, bid)) }
            } else if roll < 65 {
                EOp::Place { a, bid: g.chance(1, 2), vol: 1 + g.below(6) as u32, trader: 7, price: None }
            } else if roll < 80 {
                EOp::Cancel(a, g.below(n as u64) as usize)
            } else if roll < 95 {
                let id = g.below(n as u64) as usize;
                let cur = t.vol_of(a, id);
                let bid = g.chance(1, 2);
                let p = if g.chance(1, 2) { None } else { Some(price(g, bid)) };
                let v = match g.below(4) { 0 => None, 1 => Some(cur.saturating_sub(1).max(1)), 2 => Some(cur.max(1)), _ => Some(cur.saturating_add(1 + g.below(3) as u32)) };
                EOp::Modify(a, id, p, v)
            } else {
                // off-grid creation: rejected, consumes nothing
                EOp::Place { a, bid: g.chance(1, 2), vol: 2, trader: 8, price: Some(centre[a] * tick + if tick > 1 { 1 } else { 0 }) }
            };
            run.op(t, rng, &op);
        }
        if fam.toggles && g.chance(1, 6) { let o = if g.chance(1, 2) { EOp::Disable } else { EOp::Enable }; run.op(t, rng, &o); }
        run.op(t, rng, &EOp::Step);
    }
    // drain probe: with trading on, one market order per side and asset for the whole resting opposite volume, each
    // in a step of its own: the trade records spell out the queue order the environment's books ended with
    if !run.dead {
        run.op(t, rng, &EOp::Enable);
        for a in 0..a_n {
            for bid in [false, true] {
                if run.dead { break; }
                let (bv, av) = t.resting(a);
                let v = if bid { av } else { bv };
                if v == 0 || v > u32::MAX as u64 { continue; }
                run.op(t, rng, &EOp::Place { a, bid, vol: v as u32, trader: 99, price: None });
                run.op(t, rng, &EOp::Step);
            }
        }
    }
    run.end(t);
}

/// A random script of direct operations on a Market<A, L>.
pub fn market_script<W: Write>(w: &mut W, st: &mut EStats, id: u64, t: &mut dyn Target, rng: &mut CountRng, g: &mut Sm,
                               l: usize, seed: u64, t0: u64, trading: bool, ticks: &[u32], len: usize) {
    let a_n = t.assets();
    let mut run = ERun::begin(w, st, id, t, l, seed, t0, 0, trading, ticks, rng);
    let mut now = t0;
    // extreme mode: a few huge volumes, mirrored prices (tick dividing 2^32-1), clock jumps across multiples of 2^32
    let extreme = g.chance(1, 5);
    for _ in 0..len {
        if run.dead { break; }
        let a = g.below(a_n as u64) as usize;
        let n = t.n_orders(a);
        let tick = ticks[a];
        let pr = |g: &mut Sm| { let p = (8 + g.below(6) as u32) * tick; if extreme && u32::MAX % tick == 0 && g.chance(1, 4) { u32::MAX - p } else { p } };
        let op = match g.below(100) {
            0..=39 => { let vol = if extreme && g.chance(1, 8) { *g.pick(&[(1u32 << 31) - 1, 1u32 << 31, 3_000_000_000]) } else if g.chance(1, 30) { 0 } else { 1 + g.below(5) as u32 };
                EOp::Direct(a, Op::CreatePlace { bid: g.chance(1, 2), vol, trader: g.below(4) as u32, price: Some(pr(g)) }) }
            40..=46 => EOp::Direct(a, Op::CreatePlace { bid: g.chance(1, 2), vol: 1 + g.below(5) as u32, trader: 5, price: None }),
            47..=52 => EOp::Direct(a, Op::Create { bid: g.chance(1, 2), vol: 1 + g.below(5) as u32, trader: 6, price: Some(pr(g)) }),
            53..=58 if n > 0 => EOp::Direct(a, if g.chance(1, 2) { Op::Place(g.below(n as u64) as usize) } else { Op::EvNew(g.below(n as u64) as usize) }),
            59..=70 if n > 0 => EOp::Direct(a, if g.chance(1, 2) { Op::Cancel(g.below(n as u64) as usize) } else { Op::EvCancel(g.below(n as u64) as usize) }),
            71..=82 if n > 0 => { let id = g.below(n as u64) as usize; let cur = t.vol_of(a, id);
                let p = if g.chance(1, 2) { None } else { Some(pr(g)) };
                // (a modification to volume 0 is accepted by the API: the order stays active and keeps its level)
                let v = if g.chance(1, 10) { Some(0) } else { match g.below(3) { 0 => None, 1 => Some(cur.saturating_sub(1).max(1)), _ => Some(cur.saturating_add(2)) } };
                EOp::Direct(a, if g.chance(1, 2) { Op::Modify(id, p, v) } else { Op::EvModify(id, p, v) }) }
            83..=85 => EOp::Direct(a, Op::CreatePlace { bid: g.chance(1, 2), vol: 2, trader: 9, price: Some(pr(g) + if tick > 1 { 1 } else { 0 }) }),
            86..=88 => if g.chance(1, 2) { EOp::Disable } else { EOp::Enable },
            89..=90 => EOp::ResetTvols,
            _ => { now += if extreme && g.chance(1, 4) { (1u64 << 32) - g.below(3) } else { g.below(3) }; EOp::SetTime(now) }
        };
        run.op(t, rng, &op);
    }
    run.end(t);
}

pub fn new_rng(seed: u64) -> CountRng { CountRng { inner: Xoroshiro128StarStar::seed_from_u64(seed), n: 0 } }
pub fn side(bid: bool) -> Side { side_of(bid) }
