//! drive: generate operation scripts, execute them on the real bourse crates
//! and print the protocol lines (B/S/O/R/E) the extracted model runner reads.
use bourse_verif_harness::gen::*;
use bourse_verif_harness::{Op, Sm};
use std::collections::HashMap;
use std::io::{BufRead, BufWriter, Write};

fn args() -> (String, HashMap<String, String>) {
    let a: Vec<String> = std::env::args().collect();
    let mut m = HashMap::new();
    let mut i = 2;
    while i + 1 < a.len() + 1 && i < a.len() {
        let k = a[i].trim_start_matches("--").to_string();
        let v = a.get(i + 1).cloned().unwrap_or_default();
        m.insert(k, v);
        i += 2;
    }
    (a.get(1).cloned().unwrap_or_default(), m)
}

fn num<T: std::str::FromStr>(m: &HashMap<String, String>, k: &str, d: T) -> T {
    m.get(k).and_then(|x| x.parse().ok()).unwrap_or(d)
}

fn write_stats(path: &str, st: &Stats, extra: &str) {
    if path.is_empty() { return; }
    let samples: Vec<String> = st.samples.iter().map(|s| format!("{:?}", s)).collect();
    let js = format!(
        "{{\"scripts\":{},\"ops\":{},\"panics\":{},\"op_kinds\":{:?},\"price_errors\":{},\"trades\":{},\"nontrivial\":{},\"distinct_nontrivial\":{},\"final_status\":{:?},\"samples\":[{}]{}}}",
        st.scripts, st.ops, st.panics, st.op_kinds, st.price_errors, st.trades, st.nontrivial, st.distinct_nontrivial,
        st.final_status, samples.join(","), extra);
    std::fs::write(path, js).unwrap();
}

macro_rules! with_levels {
    ($l:expr, $f:ident, $($a:expr),*) => {
        match $l {
            1 => $f::<1>($($a),*), 2 => $f::<2>($($a),*), 3 => $f::<3>($($a),*), 4 => $f::<4>($($a),*),
            5 => $f::<5>($($a),*), 10 => $f::<10>($($a),*), 24 => $f::<24>($($a),*),
            _ => panic!("unsupported level count"),
        }
    };
}

fn book_random<const L: usize>(m: &HashMap<String, String>) {
    let fam = family(m.get("family").map(|s| s.as_str()).unwrap_or("C01"));
    let seed: u64 = num(m, "seed", 1);
    let count: u64 = num(m, "count", 100);
    let len: usize = num(m, "len", 60);
    let shard: u64 = num(m, "shard", 0);
    let nshards: u64 = num(m, "nshards", 1);
    let only: i64 = num(m, "only", -1);
    let out = std::io::stdout();
    let mut em = Emitter { w: BufWriter::with_capacity(1 << 20, out.lock()), stats: Stats::default(), keep_samples: 3 };
    for i in 0..count {
        if i % nshards != shard { continue; }
        if only >= 0 && i as i64 != only { continue; }
        let mut rng = Sm(seed.wrapping_mul(0x9E3779B97F4A7C15) ^ (i + 1).wrapping_mul(0xD1B54A32D192ED03) ^ fnv_name(fam.name));
        let l = 1 + rng.below(len as u64) as usize;
        let l = if rng.chance(1, 4) { len } else { l };
        random_script::<_, L>(&mut em, i, &mut rng, &fam, l);
    }
    em.w.flush().unwrap();
    write_stats(m.get("stats").map(|s| s.as_str()).unwrap_or(""), &em.stats, "");
}

fn fnv_name(s: &str) -> u64 { s.bytes().fold(0xcbf29ce484222325u64, |h, b| (h ^ b as u64).wrapping_mul(0x100000001b3)) }

fn book_tree<const L: usize>(m: &HashMap<String, String>) {
    let kind = match m.get("kind").map(|s| s.as_str()).unwrap_or("C01") {
        "C01" => TreeKind::C01, "C05" => TreeKind::C05, "C06" => TreeKind::C06, "C12" => TreeKind::C12,
        "C13" => TreeKind::C13, "C04" => TreeKind::C04, k => panic!("unknown tree kind {}", k) };
    let depth: usize = num(m, "depth", 3);
    let tick: u32 = num(m, "tick", 1);
    let reduced: u32 = num(m, "reduced", 0);
    let shard: u64 = num(m, "shard", 0);
    let nshards: u64 = num(m, "nshards", 1);
    let only: i64 = num(m, "only", -1);
    let trading: u32 = num(m, "trading", 1);
    let out = std::io::stdout();
    let mut em = Emitter { w: BufWriter::with_capacity(1 << 20, out.lock()), stats: Stats::default(), keep_samples: 3 };
    let h = Header { t0: 5, tick, trading: trading == 1 };
    let total = enumerate(kind, tick, depth, reduced == 1, &mut |idx, path| {
        if idx % nshards != shard { return; }
        if only >= 0 && idx as i64 != only { return; }
        let mut run = Run::<_, L>::begin(&mut em, idx, &h);
        for p in path { run.proto(p); }
        run.drain(matches!(kind, TreeKind::C13 | TreeKind::C04) || trading == 0);
        run.end();
    });
    em.w.flush().unwrap();
    write_stats(m.get("stats").map(|s| s.as_str()).unwrap_or(""), &em.stats, &format!(",\"tree_leaves\":{},\"exhaustive\":true", total));
}

/// Re-execute an explicit script: lines `B id t0 tick trading L` and `O <op>`.
fn replay<const L: usize>(lines: &[String]) {
    let out = std::io::stdout();
    let mut em = Emitter { w: BufWriter::new(out.lock()), stats: Stats::default(), keep_samples: 0 };
    // single script per file
    let mut hdr: Option<(u64, Header)> = None;
    let mut ops = Vec::new();
    for l in lines {
        let l = l.trim();
        if let Some(r) = l.strip_prefix("B ") {
            let v: Vec<u64> = r.split_whitespace().filter_map(|x| x.parse().ok()).collect();
            hdr = Some((v[0], Header { t0: v[1], tick: v[2] as u32, trading: v[3] == 1 }));
        } else if let Some(r) = l.strip_prefix("O ") {
            ops.push(Op::decode(r).expect("bad op line"));
        }
    }
    let (id, h) = hdr.expect("no header");
    let mut run = Run::<_, L>::begin(&mut em, id, &h);
    for o in &ops { run.op(o); }
    run.end();
    em.w.flush().unwrap();
}

fn main() {
    std::panic::set_hook(Box::new(|_| {}));
    let (cmd, m) = args();
    match cmd.as_str() {
        "book-random" => { let l: usize = num(&m, "levels", 3); with_levels!(l, book_random, &m) }
        "book-tree" => { let l: usize = num(&m, "levels", 3); with_levels!(l, book_tree, &m) }
        "snapshots" => {
            use bourse_verif_harness::snap::*;
            let seed: u64 = num(&m, "seed", 1);
            let count: u64 = num(&m, "count", 50);
            let len: usize = num(&m, "len", 60);
            let trunc: u64 = num(&m, "trunc", 10);
            let dir = m.get("dir").cloned().unwrap_or_else(|| ".".into());
            std::fs::create_dir_all(&dir).unwrap();
            let mut st = SnapStats { points: 0, files: 0, offsets: 0, cont_ops: 0, market_points: 0, status_seen: [0; 5], trading_off_points: 0, fails: vec![], samples: vec![] };
            book_snapshots::<1>(seed, count, len, &dir, trunc / 4, &mut st);
            book_snapshots::<3>(seed + 1, count, len, &dir, trunc / 2, &mut st);
            book_snapshots::<10>(seed + 2, count, len, &dir, trunc * 3 / 4, &mut st);
            book_snapshots::<24>(seed + 3, count / 2, len, &dir, trunc, &mut st);
            market_snapshots::<1>(seed + 4, count / 4 + 1, len, &dir, &mut st);
            market_snapshots::<2>(seed + 5, count / 4 + 1, len, &dir, &mut st);
            market_snapshots::<4>(seed + 6, count / 4 + 1, len, &dir, &mut st);
            for f in &st.fails { println!("SNAPFAIL {}", f); }
            println!("SNAPSTATS {{\"points\":{},\"market_points\":{},\"files\":{},\"truncation_offsets\":{},\"continuation_ops\":{},\"status_seen\":{:?},\"trading_off_points\":{},\"samples\":{:?}}}",
                st.points, st.market_points, st.files, st.offsets, st.cont_ops, st.status_seen, st.trading_off_points, st.samples);
        }
        "replay" => {
            let f = std::fs::File::open(m.get("file").expect("--file")).unwrap();
            let lines: Vec<String> = std::io::BufReader::new(f).lines().map(|l| l.unwrap()).collect();
            let l: usize = lines.iter().find_map(|l| l.strip_prefix("B ").map(|r| r.split_whitespace().nth(4).unwrap().parse().unwrap())).unwrap_or(3);
            with_levels!(l, replay, &lines)
        }
        _ => { eprintln!("usage: drive book-random|book-tree|replay --key value ..."); std::process::exit(2) }
    }
}
