//! drive: generate operation scripts, execute them on the real bourse crates
//! and print the protocol lines (B/S/O/R/E) the extracted model runner reads.
use bourse_verif_harness::gen::*;
use bourse_verif_harness::{Op, Sm};
use std::collections::HashMap;
use std::io::{BufRead, BufWriter, Write};

fn args() -> (String, HashMap<String, String>) {
    let a: Vec<String> = std::env::args().collect();
    let mut m = HashMap::new();
    let mut i = 2;
    while i + 1 < a.len() + 1 && i < a.len() {
        let k = a[i].trim_start_matches("--").to_string();
        let v = a.get(i + 1).cloned().unwrap_or_default();
        m.insert(k, v);
        i += 2;
    }
    (a.get(1).cloned().unwrap_or_default(), m)
}

fn num<T: std::str::FromStr>(m: &HashMap<String, String>, k: &str, d: T) -> T {
    m.get(k).and_then(|x| x.parse().ok()).unwrap_or(d)
}

fn write_stats(path: &str, st: &Stats, extra: &str) {
    if path.is_empty() { return; }
    let samples: Vec<String> = st.samples.iter().map(|s| format!("{:?}", s)).collect();
    let js = format!(
        "{{\"scripts\":{},\"ops\":{},\"panics\":{},\"op_kinds\":{:?},\"price_errors\":{},\"trades\":{},\"nontrivial\":{},\"distinct_nontrivial\":{},\"final_status\":{:?},\"samples\":[{}]{}}}",
        st.scripts, st.ops, st.panics, st.op_kinds, st.price_errors, st.trades, st.nontrivial, st.distinct_nontrivial,
        st.final_status, samples.join(","), extra);
    std::fs::write(path, js).unwrap();
}

macro_rules! with_levels {
    ($l:expr, $f:ident, $($a:expr),*) => {
        match $l {
            1 => $f::<1>($($a),*), 2 => $f::<2>($($a),*), 3 => $f::<3>($($a),*), 4 => $f::<4>($($a),*),
            5 => $f::<5>($($a),*), 10 => $f::<10>($($a),*), 24 => $f::<24>($($a),*),
            _ => panic!("unsupported level count"),
        }
    };
}

fn book_random<const L: usize>(m: &HashMap<String, String>) {
    let fam = family(m.get("family").map(|s| s.as_str()).unwrap_or("C01"));
    let seed: u64 = num(m, "seed", 1);
    let count: u64 = num(m, "count", 100);
    let len: usize = num(m, "len", 60);
    let shard: u64 = num(m, "shard", 0);
    let nshards: u64 = num(m, "nshards", 1);
    let only: i64 = num(m, "only", -1);
    let out = std::io::stdout();
    let mut em = Emitter { w: BufWriter::with_capacity(1 << 20, out.lock()), stats: Stats::default(), keep_samples: 3 };
    for i in 0..count {
        if i % nshards != shard { continue; }
        if only >= 0 && i as i64 != only { continue; }
        let mut rng = Sm(seed.wrapping_mul(0x9E3779B97F4A7C15) ^ (i + 1).wrapping_mul(0xD1B54A32D192ED03) ^ fnv_name(fam.name));
        let l = 1 + rng.below(len as u64) as usize;
        let l = if rng.chance(1, 4) { len } else { l };
        random_script::<_, L>(&mut em, i, &mut rng, &fam, l);
    }
    em.w.flush().unwrap();
    write_stats(m.get("stats").map(|s| s.as_str()).unwrap_or(""), &em.stats, "");
}

fn fnv_name(s: &str) -> u64 { s.bytes().fold(0xcbf29ce484222325u64, |h, b| (h ^ b as u64).wrapping_mul(0x100000001b3)) }

fn book_tree<const L: usize>(m: &HashMap<String, String>) {
    let kind = match m.get("kind").map(|s| s.as_str()).unwrap_or("C01") {
        "C01" => TreeKind::C01, "C05" => TreeKind::C05, "C06" => TreeKind::C06, "C12" => TreeKind::C12,
        "C13" => TreeKind::C13, "C04" => TreeKind::C04, k => panic!("unknown tree kind {}", k) };
    let depth: usize = num(m, "depth", 3);
    let tick: u32 = num(m, "tick", 1);
    let reduced: u32 = num(m, "reduced", 0);
    let shard: u64 = num(m, "shard", 0);
    let nshards: u64 = num(m, "nshards", 1);
    let only: i64 = num(m, "only", -1);
    let trading: u32 = num(m, "trading", 1);
    let out = std::io::stdout();
    let mut em = Emitter { w: BufWriter::with_capacity(1 << 20, out.lock()), stats: Stats::default(), keep_samples: 3 };
    let h = Header { t0: 5, tick, trading: trading == 1 };
    let total = enumerate(kind, tick, depth, reduced == 1, &mut |idx, path| {
        if idx % nshards != shard { return; }
        if only >= 0 && idx as i64 != only { return; }
        let mut run = Run::<_, L>::begin(&mut em, idx, &h);
        for p in path { run.proto(p); }
        run.drain(matches!(kind, TreeKind::C13 | TreeKind::C04) || trading == 0);
        run.end();
    });
    em.w.flush().unwrap();
    write_stats(m.get("stats").map(|s| s.as_str()).unwrap_or(""), &em.stats, &format!(",\"tree_leaves\":{},\"exhaustive\":true", total));
}

/// Re-execute an explicit script: lines `B id t0 tick trading L` and `O <op>`.
fn replay<const L: usize>(lines: &[String]) {
    let out = std::io::stdout();
    let mut em = Emitter { w: BufWriter::new(out.lock()), stats: Stats::default(), keep_samples: 0 };
    // single script per file
    let mut hdr: Option<(u64, Header)> = None;
    let mut ops = Vec::new();
    for l in lines {
        let l = l.trim();
        if let Some(r) = l.strip_prefix("B ") {
            let v: Vec<u64> = r.split_whitespace().filter_map(|x| x.parse().ok()).collect();
            hdr = Some((v[0], Header { t0: v[1], tick: v[2] as u32, trading: v[3] == 1 }));
        } else if let Some(r) = l.strip_prefix("O ") {
            ops.push(Op::decode(r).expect("bad op line"));
        }
    }
    let (id, h) = hdr.expect("no header");
    let mut run = Run::<_, L>::begin(&mut em, id, &h);
    for o in &ops { run.op(o); }
    if let Ok(p) = std::env::var("VERIF_SAVE_JSON") { if !p.is_empty() { let _ = run.book.save_json(&p, p.ends_with("pretty.json")); } }
    run.end();
    em.w.flush().unwrap();
}

fn env_random(m: &HashMap<String, String>) {
    use bourse_verif_harness::envdrive::*;
    use bourse_de::{Env, MarketEnv};
    use bourse_book::Market;
    let seed: u64 = num(m, "seed", 1);
    let count: u64 = num(m, "count", 100);
    let shard: u64 = num(m, "shard", 0);
    let nshards: u64 = num(m, "nshards", 1);
    let only: i64 = num(m, "only", -1);
    let kind: u64 = num(m, "kind", 0);          // 0 Env, 1 MarketEnv, 2 Market
    let fam = EnvFamily { max_batch: num(m, "maxbatch", 6), small_step: num(m, "smallstep", 0u32) == 1, toggles: num(m, "toggles", 1u32) == 1,
                          rounds: num(m, "rounds", 6), asym: num(m, "asym", 0u32) == 1, distinct_batch: num(m, "distinct", 0u32) == 1, extreme: false };
    let out = std::io::stdout();
    let mut w = BufWriter::with_capacity(1 << 20, out.lock());
    let mut st = EStats::new();
    for i in 0..count {
        if i % nshards != shard { continue; }
        if only >= 0 && i as i64 != only { continue; }
        let mut g = Sm(seed.wrapping_mul(0x9E3779B97F4A7C15) ^ (i + 1).wrapping_mul(0xC2B2AE3D27D4EB4F) ^ kind);
        let rseed = g.next() >> (g.below(50) as u32);
        // extreme mode: clocks around multiples of 2^32 and far beyond, step sizes above 2^32, large ticks,
        // a few huge volumes, mirrored prices
        let extreme = !fam.asym && !fam.distinct_batch && g.chance(1, 5);
        let mut fam = fam.clone();
        fam.extreme = extreme;
        let t0 = if extreme { let (x, y, z) = ((1u64 << 32) - 1 - g.below(40), (1u64 << 40) + g.below(1000), g.next() >> 6); *g.pick(&[x, y, z]) } else { g.below(2000) };
        let step: u64 = if fam.small_step { 1 + g.below(3) } else if extreme { *g.pick(&[1u64 << 32, (1u64 << 33) + 7, 4_000_000_000]) } else { *g.pick(&[10u64, 100, 1000, 1_000_000]) };
        let trading = !(fam.toggles && g.chance(1, 6));
        let mut rng = new_rng(rseed);
        let pick_tick = |g: &mut Sm| -> u32 { if extreme && g.chance(1, 2) { *g.pick(&[1u32, 3, 5, 17, 257, 65537]) } else { 1 + g.below(10) as u32 } };
        macro_rules! go_env { ($l:expr) => {{ let ticks = [pick_tick(&mut g)];
            let mut t = TEnv::<$l>(Env::<$l>::new(t0, ticks[0], step, trading));
            env_script(&mut w, &mut st, i, &mut t, &mut rng, &mut g, $l, rseed, t0, step, trading, &ticks, &fam); }} }
        macro_rules! go_menv { ($a:expr, $l:expr) => {{ let ticks: [u32; $a] = core::array::from_fn(|_| pick_tick(&mut g));
            let mut t = TMEnv::<$a, $l>(MarketEnv::<$a, $l>::new(t0, ticks, step, trading));
            env_script(&mut w, &mut st, i, &mut t, &mut rng, &mut g, $l, rseed, t0, step, trading, &ticks, &fam); }} }
        macro_rules! go_market { ($a:expr, $l:expr) => {{ let ticks: [u32; $a] = core::array::from_fn(|_| 1 + g.below(5) as u32);
            let mut t = TMarket::<$a, $l>(Market::<$a, $l>::new(t0, ticks, trading));
            let len = 20 + g.below(60) as usize;
            market_script(&mut w, &mut st, i, &mut t, &mut rng, &mut g, $l, rseed, t0, trading, &ticks, len); }} }
        match (kind, i % 4) {
            (0, 0) => go_env!(1), (0, 1) => go_env!(3), (0, 2) => go_env!(10), (0, _) => go_env!(24),
            (1, 0) => go_menv!(1, 3), (1, 1) => go_menv!(2, 10), (1, 2) => go_menv!(3, 2), (1, _) => go_menv!(4, 4),
            (_, 0) => go_market!(1, 3), (_, 1) => go_market!(2, 10), (_, 2) => go_market!(3, 2), (_, _) => go_market!(4, 4),
        }
    }
    w.flush().unwrap();
    let path = m.get("stats").cloned().unwrap_or_default();
    if !path.is_empty() {
        let samples: Vec<String> = st.samples.iter().map(|s| format!("{:?}", s)).collect();
        std::fs::write(&path, format!("{{\"scripts\":{},\"ops\":{},\"steps\":{},\"panics\":{},\"batch_size_histogram\":{:?},\"overflow_batches\":{},\"nontrivial\":{},\"distinct_nontrivial\":{},\"env_op_kinds\":{:?},\"samples\":[{}],\"op_kinds\":[0,0,0,0,0,0,0,0,0,0,0,0,0],\"final_status\":[0,0,0,0,0],\"trades\":0,\"price_errors\":0}}",
            st.scripts, st.ops, st.steps, st.panics, st.batch_hist, st.overflow_batches, st.nontrivial, st.nontrivial, st.kinds, samples.join(","))).unwrap();
    }
}

fn main() {
    if std::env::var("VERIF_SHOW_PANIC").is_err() { std::panic::set_hook(Box::new(|_| {})); }
    let (cmd, m) = args();
    match cmd.as_str() {
        "book-random" => { let l: usize = num(&m, "levels", 3); with_levels!(l, book_random, &m) }
        "book-tree" => { let l: usize = num(&m, "levels", 3); with_levels!(l, book_tree, &m) }
        "snapshots" => {
            use bourse_verif_harness::snap::*;
            let seed: u64 = num(&m, "seed", 1);
            let count: u64 = num(&m, "count", 50);
            let len: usize = num(&m, "len", 60);
            let trunc: u64 = num(&m, "trunc", 10);
            let dir = m.get("dir").cloned().unwrap_or_else(|| ".".into());
            std::fs::create_dir_all(&dir).unwrap();
            let mut st = SnapStats { points: 0, files: 0, offsets: 0, cont_ops: 0, market_points: 0, status_seen: [0; 5], trading_off_points: 0, fails: vec![], samples: vec![] };
            book_snapshots::<1>(seed, count, len, &dir, trunc / 4, &mut st);
            book_snapshots::<3>(seed + 1, count, len, &dir, trunc / 2, &mut st);
            book_snapshots::<10>(seed + 2, count, len, &dir, trunc * 3 / 4, &mut st);
            book_snapshots::<24>(seed + 3, count / 2, len, &dir, trunc, &mut st);
            market_snapshots::<1>(seed + 4, count / 4 + 1, len, &dir, &mut st);
            market_snapshots::<2>(seed + 5, count / 4 + 1, len, &dir, &mut st);
            market_snapshots::<4>(seed + 6, count / 4 + 1, len, &dir, &mut st);
            for f in &st.fails { println!("SNAPFAIL {}", f); }
            println!("SNAPSTATS {{\"points\":{},\"market_points\":{},\"files\":{},\"truncation_offsets\":{},\"continuation_ops\":{},\"status_seen\":{:?},\"trading_off_points\":{},\"samples\":{:?}}}",
                st.points, st.market_points, st.files, st.offsets, st.cont_ops, st.status_seen, st.trading_off_points, st.samples);
        }
        "env-random" => env_random(&m),
        "env-replay" => {
            // explicit single-asset Env<10> script: `M id 0 10 seed t0 step trading 1 tick` and `O <env op>` lines
            use bourse_verif_harness::envdrive::*;
            let f = std::fs::File::open(m.get("file").expect("--file")).unwrap();
            let lines: Vec<String> = std::io::BufReader::new(f).lines().map(|l| l.unwrap()).collect();
            let h: Vec<u64> = lines.iter().find_map(|l| l.strip_prefix("M ")).expect("M line").split_whitespace().filter_map(|x| x.parse().ok()).collect();
            let (id, seed, t0, step, trading, tick) = (h[0], h[3], h[4], h[5], h[6] == 1, h[8] as u32);
            let out = std::io::stdout();
            let mut w = BufWriter::new(out.lock());
            let mut st = EStats::new();
            let mut rng = new_rng(seed);
            let mut t = TEnv::<10>(bourse_de::Env::<10>::new(t0, tick, step, trading));
            let mut run = ERun::begin(&mut w, &mut st, id, &t, 10, seed, t0, step, trading, &[tick], &rng);
            for l in &lines { if let Some(r) = l.strip_prefix("O ") { let o = EOp::decode(r).expect("bad env op"); run.op(&mut t, &mut rng, &o); } }
            run.end(&t);
            drop(w);
        }
        "json-obs" => {
            // observation of a book loaded from a JSON snapshot (LEVELS = 10, as the Python class uses)
            match bourse_book::OrderBook::<10>::load_json(m.get("file").expect("--file")) {
                Ok(b) => println!("S {}", bourse_verif_harness::observe(&b)),
                Err(e) => println!("ERR {}", e),
            }
        }
        "determinism-child" => {
            use bourse_verif_harness::simcheck::*;
            let c = cfg(num(&m, "cfg", 0), num(&m, "seed", 1));
            println!("{}", run_cfg(&c, num(&m, "mode", 0)));
        }
        "determinism" => {
            use bourse_verif_harness::simcheck::*;
            let base: u64 = num(&m, "seed", 1);
            let count: u64 = num(&m, "count", 40);
            let exe = std::env::current_exe().unwrap();
            let mut fails: Vec<String> = Vec::new();
            let mut digests = std::collections::HashMap::new();
            let (mut same_seed_pairs, mut distinct_seed_pairs, mut distinct_digest_pairs) = (0u64, 0u64, 0u64);
            let mut samples = Vec::new();
            for i in 0..count {
                let c = cfg(i, base);
                let d0 = run_cfg(&c, 0);
                let d0b = run_cfg(&c, 0);
                let d1 = run_cfg(&c, 1);
                let d2 = run_cfg(&c, 2);
                let child = |mode: u8| -> String {
                    let o = std::process::Command::new(&exe).args(["determinism-child", "--cfg", &i.to_string(), "--seed", &base.to_string(), "--mode", &mode.to_string()]).output().unwrap();
                    String::from_utf8_lossy(&o.stdout).trim().to_string()
                };
                let (dc0, dc1) = (child(0), child(1));
                same_seed_pairs += 5;
                let desc = format!("config {} (seed {}, {} steps, step size {}, tick {}, {} set, shape {})", i, c.seed, c.steps, c.step_size, c.tick, if c.market { "multi-asset" } else { "single-asset" }, c.shape);
                if samples.len() < 3 { samples.push(format!("{} -> digest {}", desc, d0)); }
                if d0 != d0b { fails.push(format!("two runs in one process differ: {}", desc)); }
                if d0 != d1 { fails.push(format!("progress-bar branch differs from the silent branch: {}", desc)); }
                if d0 != d2 { fails.push(format!("runner differs from the hand-written loop over Xoroshiro128StarStar::seed_from_u64(seed): {}", desc)); }
                if dc0 != d0.to_string() { fails.push(format!("a separate OS process gives a different run ({} vs {}): {}", dc0, d0, desc)); }
                if dc1 != d0.to_string() { fails.push(format!("a separate OS process with the progress bar gives a different run: {}", desc)); }
                // a different seed on the same configuration
                let c2 = Cfg { seed: c.seed ^ 0x5555, ..cfg(i, base) };
                let e0 = run_cfg(&c2, 0);
                distinct_seed_pairs += 1;
                if e0 != d0 { distinct_digest_pairs += 1; }
                digests.insert(i, d0);
            }
            for f in &fails { println!("DETFAIL {}", f); }
            println!("DETSTATS {{\"configurations\":{},\"same_seed_comparisons\":{},\"different_seed_pairs\":{},\"different_seed_pairs_with_different_output\":{},\"samples\":{:?}}}",
                count, same_seed_pairs, distinct_seed_pairs, distinct_digest_pairs, samples);
        }
        "momentum-mirror" => {
            let (fails, stats) = bourse_verif_harness::simcheck::momentum_mirror(num(&m, "seed", 1), num(&m, "count", 200));
            for f in &fails { println!("MIRRORFAIL {}", f); }
            println!("MIRRORSTATS {}", stats);
        }
        "macros" => {
            match std::panic::catch_unwind(|| bourse_verif_harness::simcheck::macro_checks(num(&m, "seed", 1), num(&m, "rounds", 5))) {
                Ok((fails, compared)) => {
                    for f in &fails { println!("MACROFAIL {}", f); }
                    println!("MACROSTATS {{\"shapes\":12,\"calls_compared\":{}}}", compared);
                }
                Err(_) => { println!("MACROFAIL the simulation aborted (panic) while a derived agent set was updated"); println!("MACROSTATS {{\"shapes\":12,\"calls_compared\":0}}"); }
            }
        }
        "agents-random" => {
            use bourse_verif_harness::agentdrive::*;
            use bourse_verif_harness::envdrive::EStats;
            let seed: u64 = num(&m, "seed", 1);
            let count: u64 = num(&m, "count", 50);
            let shard: u64 = num(&m, "shard", 0);
            let nshards: u64 = num(&m, "nshards", 1);
            let only: i64 = num(&m, "only", -1);
            let steps: usize = num(&m, "steps", 12);
            let kinds: Vec<u8> = m.get("kinds").map(|s| s.split(',').filter_map(|x| x.parse().ok()).collect()).unwrap_or(vec![0, 1, 2]);
            let paths: u32 = num(&m, "paths", 0);
            let out = std::io::stdout();
            let mut w = BufWriter::with_capacity(1 << 20, out.lock());
            let mut st = EStats::new();
            for i in 0..count {
                if i % nshards != shard { continue; }
                if only >= 0 && i as i64 != only { continue; }
                let mut g = Sm(seed.wrapping_mul(0x9E3779B97F4A7C15) ^ (i + 1).wrapping_mul(0xC2B2AE3D27D4EB4F) ^ 0xA6);
                let market = g.chance(1, 3);
                let nsteps = 1 + g.below(steps as u64) as usize;
                if paths == 1 {
                    // imposed mid-price paths: rising, falling, mixed, flat
                    // in half ticks: an odd value puts the mid-price between two grid points
                    let base = 200 + g.below(200) as i64;
                    let mut path = vec![base];
                    let shape = g.below(4);
                    for s in 1..nsteps + 1 {
                        let d = match shape { 0 => *g.pick(&[1i64, 2, 4]), 1 => -*g.pick(&[1i64, 2, 4]), 2 => *g.pick(&[3i64, -3, 1, -1, 6, -6]), _ => if s % 3 == 0 { *g.pick(&[1i64, 8]) } else { 0 } };
                        let last = *path.last().unwrap();
                        path.push((last + d).max(20));
                    }
                    agent_script(&mut w, &mut st, i, &mut g, market, nsteps, &kinds, Some(&path));
                } else {
                    agent_script(&mut w, &mut st, i, &mut g, market, nsteps, &kinds, None);
                }
            }
            w.flush().unwrap();
            let path = m.get("stats").cloned().unwrap_or_default();
            if !path.is_empty() {
                let samples: Vec<String> = st.samples.iter().map(|s| format!("{:?}", s)).collect();
                std::fs::write(&path, format!("{{\"scripts\":{},\"ops\":{},\"steps\":{},\"panics\":{},\"batch_size_histogram\":{:?},\"overflow_batches\":0,\"nontrivial\":{},\"distinct_nontrivial\":{},\"env_op_kinds\":{:?},\"samples\":[{}],\"op_kinds\":[0,0,0,0,0,0,0,0,0,0,0,0,0],\"final_status\":[0,0,0,0,0],\"trades\":0,\"price_errors\":0}}",
                    st.scripts, st.ops, st.steps, st.panics, st.batch_hist, st.nontrivial, st.nontrivial, st.kinds, samples.join(","))).unwrap();
            }
        }
        "shuffle-stats" => {
            match std::panic::catch_unwind(|| bourse_verif_harness::shufstats::run(num(&m, "small", 200000), num(&m, "large", 50000), num(&m, "seed", 1))) {
                Ok((fails, summary)) => { for f in &fails { println!("STATFAIL {}", f); } println!("STATS {}", summary); }
                Err(_) => { println!("STATFAIL an environment step aborted (panic) on a batch of plain limit orders and cancellations"); println!("STATS []"); }
            }
        }
        "replay" => {
            let f = std::fs::File::open(m.get("file").expect("--file")).unwrap();
            let lines: Vec<String> = std::io::BufReader::new(f).lines().map(|l| l.unwrap()).collect();
            let l: usize = lines.iter().find_map(|l| l.strip_prefix("B ").map(|r| r.split_whitespace().nth(4).unwrap().parse().unwrap())).unwrap_or(3);
            with_levels!(l, replay, &lines)
        }
        _ => { eprintln!("usage: drive book-random|book-tree|replay --key value ..."); std::process::exit(2) }
    }
}
