#!/usr/bin/env python3
"""C18: the Python classes as transparent views of the Rust core.
Generated call scripts are executed on the real extension module (bourse.core.OrderBook / StepEnv); the same
scripts are executed on the Rust core by the harness (`drive replay` / `drive env-replay`, whose output also goes
through the extracted Coq model); every value the Python API returns is compared with the core's.
usage: python3-vt c18.py <ext dir> <drive> <runner> <workdir> <seed> <count> ; prints PYFAIL / PYSTATS lines."""
import sys, os, json, random, subprocess
sys.path.insert(0, os.path.dirname(__file__))
from pyload import load_core

ext, DRIVE, RUNNER, work, seed, count = sys.argv[1], sys.argv[2], sys.argv[3], sys.argv[4], int(sys.argv[5]), int(sys.argv[6])
core = load_core(ext)
rnd = random.Random(seed)
os.makedirs(work, exist_ok=True)
fails, samples = [], []
stats = {"book_scripts": 0, "env_scripts": 0, "calls": 0, "out_of_range_calls": 0, "off_grid_calls": 0, "snapshots_py_to_rust": 0, "snapshots_rust_to_py": 0, "model_reports": 0}
MAXP, MAXT = 2 ** 32 - 1, 2 ** 64 - 1


def parse_obs(nums):
    """decode the core's observation line (coq/Model/Codec.v enc_obs)"""
    it = iter(nums)
    nx = lambda: next(it)
    o = {}
    for k in ("t", "tvol", "bid", "ask", "bid_vol", "ask_vol", "bbv", "abv"):
        o[k] = nx()
    o["bbvo"] = (nx(), nx()); o["abvo"] = (nx(), nx())
    L = nx()
    o["bl"] = [(nx(), nx()) for _ in range(L)]; o["al"] = [(nx(), nx()) for _ in range(L)]
    for _ in range(8 + 4 + 4 * L):
        nx()
    nx()  # mid
    n = nx()
    o["orders"] = [tuple([bool(nx())] + [nx() for _ in range(8)]) for _ in range(n)]
    n = nx()
    o["trades"] = []
    for _ in range(n):
        t = nx(); sd = bool(nx()); o["trades"].append((t, sd, nx(), nx(), nx(), nx()))
    return o


def py_book_view(b, norders):
    return {"bid": b.bid_ask()[0], "ask": b.bid_ask()[1], "bid_vol": b.bid_vol(), "ask_vol": b.ask_vol(), "bbv": b.best_bid_vol(), "abv": b.best_ask_vol(),
            "bbvo": tuple(b.best_bid_vol_and_orders()), "abvo": tuple(b.best_ask_vol_and_orders()),
            "orders": [tuple(o) for o in b.get_orders()], "trades": [tuple(t) for t in b.get_trades()],
            "statuses": [b.order_status(i) for i in range(norders)]}


def compare_view(pv, co, ctx):
    for k in ("bid", "ask", "bid_vol", "ask_vol", "bbv", "abv", "bbvo", "abvo", "orders", "trades"):
        if pv[k] != co[k]:
            return "Python %s = %s but the Rust core gives %s (%s)" % (k, str(pv[k])[:200], str(co[k])[:200], ctx)
    if pv["statuses"] != [o[1] for o in co["orders"]]:
        return "Python order_status values %s differ from the core's statuses %s (%s)" % (pv["statuses"], [o[1] for o in co["orders"]], ctx)
    return None


def opt(x):
    return "1 %d" % x if x is not None else "0 0"


def run_core(kind, path, save=None):
    env = dict(os.environ)
    if save:
        env["VERIF_SAVE_JSON"] = save
    out = subprocess.run([DRIVE, "replay" if kind == "book" else "env-replay", "--file", path], stdout=subprocess.PIPE, text=True, env=env).stdout
    rep = subprocess.run([RUNNER], input=out, stdout=subprocess.PIPE, text=True).stdout
    nrep = sum(1 for l in rep.splitlines() if l.startswith("REP "))
    return [l for l in out.splitlines()], nrep


def book_script(i):
    tick = rnd.choice([1, 2, 3, 5, 10])
    t0 = rnd.randrange(1000)
    trading = rnd.random() < 0.85
    b = core.OrderBook(t0, tick, trading)
    lines = ["B %d %d %d %d 10" % (i, t0, tick, int(trading))]
    views = [py_book_view(b, 0)]
    results = []
    n, now = 0, t0
    centre = rnd.randrange(20, 100)
    for _ in range(rnd.randrange(5, 40)):
        r = rnd.random()
        stats["calls"] += 1
        if r < 0.45:
            bid = rnd.random() < 0.5
            price = None if rnd.random() < 0.15 else (centre + rnd.randrange(-4, 5)) * tick
            if rnd.random() < 0.08:      # boundary prices (on the grid): 0, one tick, the largest grid price, 2^32-1 when the tick divides it
                price = rnd.choice([0, tick, ((2 ** 32 - 1) // tick) * tick, ((2 ** 32 - 1) // tick - 1) * tick])
            vol = rnd.randrange(1, 30); tr = rnd.randrange(100)
            oid = b.place_order(bid, vol, tr, price=price) if rnd.random() < 0.5 else b.place_order(bid, vol, tr, price)
            lines.append("O 1 %d %d %d %s" % (int(bid), vol, tr, opt(price)))
            results.append(("created", oid)); n += 1
        elif r < 0.55 and tick > 1:
            price = (centre + rnd.randrange(-4, 5)) * tick + rnd.randrange(1, tick)
            bid = rnd.random() < 0.5
            stats["off_grid_calls"] += 1
            before = py_book_view(b, n)
            try:
                b.place_order(bid, 3, 1, price=price)
                fails.append("off-grid price %d (tick %d) did not raise ValueError" % (price, tick))
            except ValueError:
                pass
            except BaseException as e:
                fails.append("off-grid price raised %r instead of ValueError" % (e,))
            if py_book_view(b, n) != before:
                fails.append("an off-grid place_order changed the Python object")
            lines.append("O 1 %d 3 1 1 %d" % (int(bid), price))
            results.append(("price_error", price))
        elif r < 0.62:
            # out-of-range integers: OverflowError, object unchanged (not part of the core script)
            stats["out_of_range_calls"] += 1
            before = py_book_view(b, n)
            call = rnd.choice([lambda: b.place_order(True, 2 ** 32, 1, price=tick * 10), lambda: b.place_order(True, 1, 2 ** 32, price=tick * 10),
                               lambda: b.place_order(False, 1, 1, price=2 ** 32), lambda: b.place_order(True, -1, 1, price=tick * 10),
                               lambda: b.set_time(2 ** 64), lambda: b.set_time(-1), lambda: b.cancel_order(-1),
                               lambda: b.modify_order(0, new_price=2 ** 32) if n else b.set_time(-5), lambda: b.modify_order(0, new_vol=-3) if n else b.set_time(-5)])
            try:
                call()
                fails.append("an out-of-range integer did not raise OverflowError")
            except OverflowError:
                pass
            except BaseException as e:
                fails.append("an out-of-range integer raised %r instead of OverflowError" % (e,))
            if py_book_view(b, n) != before:
                fails.append("a call with an out-of-range integer changed the Python object")
            continue
        elif r < 0.72 and n:
            oid = rnd.randrange(n); b.cancel_order(oid); lines.append("O 3 %d" % oid); results.append(("none",))
        elif r < 0.86 and n:
            oid = rnd.randrange(n)
            p = None if rnd.random() < 0.4 else (centre + rnd.randrange(-4, 5)) * tick
            v = None if rnd.random() < 0.4 else rnd.randrange(1, 30)
            if rnd.random() < 0.5:
                b.modify_order(oid, new_price=p, new_vol=v)
            else:
                b.modify_order(oid, p, v)
            lines.append("O 4 %d %s %s" % (oid, opt(p), opt(v))); results.append(("none",))
        elif r < 0.93:
            now += rnd.randrange(0, 4); b.set_time(now); lines.append("O 8 %d" % now); results.append(("none",))
        else:
            if rnd.random() < 0.5:
                b.disable_trading(); lines.append("O 10")
            else:
                b.enable_trading(); lines.append("O 9")
            results.append(("none",))
        views.append(py_book_view(b, n))
    # run the same script on the Rust core (and through the model)
    path = os.path.join(work, "book_%d.txt" % i)
    open(path, "w").write("\n".join(lines) + "\n")
    rust_json = os.path.join(work, "rust_%d%s.json" % (i, "_pretty" if i % 2 else ""))
    out, nrep = run_core("book", path, save=rust_json)
    stats["model_reports"] += nrep
    S = [parse_obs([int(x) for x in l[2:].split()]) for l in out if l.startswith("S ")]
    R = [l[2:].split() for l in out if l.startswith("R ")]
    if len(S) != len(views):
        fails.append("script %d: the core produced %d observations for %d Python calls (a panic?)" % (i, len(S), len(views)))
        return
    for k, (pv, co) in enumerate(zip(views, S)):
        e = compare_view(pv, co, "book script %d call %d: %s" % (i, k, lines[k] if k else "constructor"))
        if e:
            fails.append(e); return
    for k, (res, rr) in enumerate(zip(results, R)):
        if res[0] == "created" and not (rr[0] == "1" and int(rr[1]) == res[1]):
            fails.append("place_order returned id %d in Python, the core returned %s (script %d call %d)" % (res[1], rr, i, k + 1)); return
        if res[0] == "price_error" and rr[0] != "2":
            fails.append("Python raised ValueError where the core returned %s" % rr); return
    # snapshots: Python -> Rust and Rust -> Python
    pj = os.path.join(work, "py_%d.json" % i)
    b.save_json_snapshot(pj, pretty=bool(i % 2)) if i % 3 else b.save_json_snapshot(pj)
    o = subprocess.run([DRIVE, "json-obs", "--file", pj], stdout=subprocess.PIPE, text=True).stdout
    stats["snapshots_py_to_rust"] += 1
    if not o.startswith("S "):
        fails.append("a snapshot written from Python does not load in Rust: %s" % o[:200]); return
    e = compare_view(views[-1], parse_obs([int(x) for x in o[2:].split()]), "snapshot written by Python, loaded in Rust (script %d)" % i)
    if e:
        fails.append(e); return
    try:
        b2 = core.order_book_from_json(rust_json)
        stats["snapshots_rust_to_py"] += 1
        e = compare_view(py_book_view(b2, n), S[-1], "snapshot written by Rust, loaded in Python (script %d)" % i)
        if e:
            fails.append(e); return
    except BaseException as ex:
        fails.append("a snapshot written by Rust does not load in Python: %r" % (ex,)); return
    stats["book_scripts"] += 1
    if len(samples) < 2:
        samples.append(lines[:12])


def parse_eobs(nums):
    """single-asset environment observation (coq/Model/EnvObs.v enc_eobs, kind 0, L = 10)"""
    assert nums[0] == 1
    n = nums[1]
    book = parse_obs(nums[2:2 + n])
    rest = nums[2 + n:]
    l2 = rest[:4 + 40]; rest = rest[44:]
    ntv = rest[0]; tvols = rest[1:1 + ntv]; rest = rest[1 + ntv:]
    nh = rest[0]; cols = [rest[1 + j * nh:1 + (j + 1) * nh] for j in range(44)]
    return book, l2, tvols, cols


def env_script(i):
    tick = rnd.choice([1, 2, 5])
    s, t0, step = rnd.randrange(2 ** 50), rnd.randrange(1000), rnd.choice([10, 1000])
    trading = rnd.random() < 0.9
    e = core.StepEnv(s, t0, tick, step, trading) if rnd.random() < 0.5 else core.StepEnv(s, t0, tick, step, trading=trading)
    e_twin = core.StepEnv(s, t0, tick, step, trading)      # determinism in the seed: same calls, same results
    lines = ["M %d 0 10 %d %d %d %d 1 %d" % (i, s, t0, step, int(trading), tick)]
    py = []

    def view(x):
        md = x.get_market_data()
        return {"time": x.time, "bid_ask": tuple(x.bid_ask), "bid_vol": x.bid_vol, "ask_vol": x.ask_vol, "bbv": x.best_bid_vol, "abv": x.best_ask_vol,
                "bbvo": tuple(x.best_bid_vol_and_orders), "abvo": tuple(x.best_ask_vol_and_orders), "trade_vol": x.trade_vol,
                "orders": [tuple(o) for o in x.get_orders()], "trades": [tuple(t) for t in x.get_trades()],
                "prices": tuple(list(map(int, a)) for a in x.get_prices()), "volumes": tuple(list(map(int, a)) for a in x.get_volumes()),
                "touch_volumes": tuple(list(map(int, a)) for a in x.get_touch_volumes()), "touch_counts": tuple(list(map(int, a)) for a in x.get_touch_order_counts()),
                "trade_volumes": list(map(int, x.get_trade_volumes())), "statuses": [x.order_status(j) for j in range(len(x.get_orders()))]}
    py.append(view(e))
    centre = rnd.randrange(20, 60)
    n = 0
    for _ in range(rnd.randrange(4, 25)):
        r = rnd.random()
        stats["calls"] += 1
        if r < 0.5:
            bid = rnd.random() < 0.5
            price = None if rnd.random() < 0.15 else (centre + rnd.randrange(-3, 4)) * tick
            if rnd.random() < 0.08:
                price = rnd.choice([0, tick, ((2 ** 32 - 1) // tick) * tick, ((2 ** 32 - 1) // tick - 1) * tick])
            vol, tr = rnd.randrange(1, 20), rnd.randrange(50)
            oid = e.place_order(bid, vol, tr, price=price); e_twin.place_order(bid, vol, tr, price)
            if oid != n:
                fails.append("StepEnv.place_order returned %d, expected the next id %d" % (oid, n)); return
            n += 1
            lines.append("O 0 0 %d %d %d %s" % (int(bid), vol, tr, opt(price)))
        elif r < 0.6 and n:
            oid = rnd.randrange(n); e.cancel_order(oid); e_twin.cancel_order(oid); lines.append("O 1 0 %d" % oid)
        elif r < 0.72 and n:
            oid = rnd.randrange(n)
            p = None if rnd.random() < 0.4 else (centre + rnd.randrange(-3, 4)) * tick
            v = None if rnd.random() < 0.4 else rnd.randrange(1, 20)
            e.modify_order(oid, new_price=p, new_vol=v); e_twin.modify_order(oid, p, v)
            lines.append("O 2 0 %d %s %s" % (oid, opt(p), opt(v)))
        elif r < 0.78:
            stats["out_of_range_calls"] += 1
            before = view(e)
            try:
                rnd.choice([lambda: e.place_order(True, 2 ** 32, 1, price=tick), lambda: e.place_order(True, 1, 1, price=-1), lambda: e.cancel_order(-1),
                            lambda: e.modify_order(0, new_vol=2 ** 33)])()
                fails.append("StepEnv: an out-of-range integer did not raise OverflowError")
            except OverflowError:
                pass
            except BaseException as ex:
                fails.append("StepEnv: an out-of-range integer raised %r" % (ex,))
            if tick > 1:
                stats["off_grid_calls"] += 1
                try:
                    e.place_order(True, 1, 1, price=centre * tick + 1)
                    fails.append("StepEnv: off-grid price did not raise ValueError")
                except ValueError:
                    pass
                lines.append("O 0 0 1 1 1 1 %d" % (centre * tick + 1)); e_twin.__class__  # keep twin untouched: rejected creation changes nothing
                if view(e) != before:
                    fails.append("StepEnv: a rejected call changed the object")
                py.append(view(e))
            elif view(e) != before:
                fails.append("StepEnv: a rejected call changed the object")
            continue
        elif r < 0.83:
            if rnd.random() < 0.5:
                e.disable_trading(); e_twin.disable_trading(); lines.append("O 5")
            else:
                e.enable_trading(); e_twin.enable_trading(); lines.append("O 4")
        else:
            e.step(); e_twin.step(); lines.append("O 3")
        py.append(view(e))
        if view(e_twin) != py[-1]:
            fails.append("two StepEnv objects with the same seed and the same calls differ (env script %d)" % i); return
    path = os.path.join(work, "env_%d.txt" % i)
    open(path, "w").write("\n".join(lines) + "\n")
    out, nrep = run_core("env", path)
    stats["model_reports"] += nrep
    S = [parse_eobs([int(x) for x in l[2:].split()]) for l in out if l.startswith("S ")]
    if len(S) != len(py):
        fails.append("env script %d: the core produced %d observations for %d Python calls" % (i, len(S), len(py))); return
    for k, (pv, (book, l2, tvols, cols)) in enumerate(zip(py, S)):
        ctx = "env script %d call %d: %s" % (i, k, lines[k] if k else "constructor")
        want = {"time": book["t"], "bid_ask": (l2[0], l2[1]), "bid_vol": l2[2], "ask_vol": l2[3], "bbv": l2[4], "abv": l2[24], "bbvo": (l2[4], l2[5]), "abvo": (l2[24], l2[25]),
                "trade_vol": book["tvol"], "orders": book["orders"], "trades": book["trades"], "prices": (cols[0], cols[1]), "volumes": (cols[2], cols[3]),
                "touch_volumes": (cols[4], cols[6]), "touch_counts": (cols[5], cols[7]), "trade_volumes": tvols, "statuses": [o[1] for o in book["orders"]]}
        for key in want:
            if pv[key] != want[key]:
                fails.append("StepEnv.%s = %s but the Rust core gives %s (%s)" % (key, str(pv[key])[:160], str(want[key])[:160], ctx)); return
    stats["env_scripts"] += 1


for i in range(count):
    if len(fails) > 4:
        break
    book_script(i)
    if i % 2 == 0:
        env_script(i)
if stats["model_reports"]:
    fails.append("the extracted model disagrees with the Rust core on %d observation(s) of these scripts" % stats["model_reports"])
for f in fails[:6]:
    print("PYFAIL " + f)
stats["samples"] = samples
print("PYSTATS " + json.dumps(stats))
