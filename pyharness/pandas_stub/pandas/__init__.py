"""Minimal stand-in for pandas (not installable offline): records what the two
data-frame helpers of bourse.data_processing do with it."""


class Series(list):
    def map(self, mapping):
        return Series(mapping[x] if isinstance(mapping, dict) else mapping(x) for x in self)


class DataFrame:
    def __init__(self, columns, rows):
        self.columns = list(columns)
        self._cols = {c: Series(r[i] for r in rows) for i, c in enumerate(self.columns)}

    @classmethod
    def from_records(cls, records, columns=None):
        records = [tuple(r) for r in records]
        if columns is None:
            raise ValueError("stub needs explicit columns")
        for r in records:
            if len(r) != len(columns):
                raise ValueError("%d columns passed, passed data had %d columns" % (len(columns), len(r)))
        return cls(columns, records)

    def __getitem__(self, c):
        return self._cols[c]

    def __setitem__(self, c, v):
        if c not in self._cols:
            self.columns.append(c)
        self._cols[c] = Series(v)

    def __len__(self):
        return len(next(iter(self._cols.values()))) if self._cols else 0
