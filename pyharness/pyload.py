"""Loads the freshly built extension module (bourse.core) and the two pure-Python helpers."""
import importlib.util, os, sys, types


def load_core(ext_dir):
    spec = importlib.util.spec_from_file_location("core", os.path.join(ext_dir, "bourse", "core.so"))
    core = importlib.util.module_from_spec(spec)
    spec.loader.exec_module(core)
    return core


def load_data_processing(repo):
    here = os.path.dirname(os.path.abspath(__file__))
    sys.path.insert(0, os.path.join(here, "pandas_stub"))
    spec = importlib.util.spec_from_file_location("data_processing", os.path.join(repo, "src/bourse/data_processing.py"))
    m = importlib.util.module_from_spec(spec)
    spec.loader.exec_module(m)
    return m
