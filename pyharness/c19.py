#!/usr/bin/env python3
"""C19: Python-facing arrays, dictionaries and data frames against the documentation, on the real extension.
usage: python3-vt c19.py <ext dir> <repo> <seed> <count>  ; prints PYFAIL lines and one PYSTATS line."""
import sys, json, random
sys.path.insert(0, __import__("os").path.dirname(__file__))
from pyload import load_core, load_data_processing
import numpy as np

ext, repo, seed, count = sys.argv[1], sys.argv[2], int(sys.argv[3]), int(sys.argv[4])
core = load_core(ext)
dp = load_data_processing(repo)
rnd = random.Random(seed)
fails = []
states = 0
samples = []


def doc_l1(tv, bid, ask, bv, av, blv, alv):
    return [tv, bid, ask, bv, av, blv[0][0], blv[0][1], alv[0][0], alv[0][1]]


def doc_l2(tv, bid, ask, bv, av, blv, alv):
    out = [tv, bid, ask, bv, av]
    for i in range(10):
        out += [blv[i][0], blv[i][1], alv[i][0], alv[i][1]]
    return out


def expected_from_orders(orders, tick):
    """recompute every documented quantity from get_orders() alone (active orders)"""
    act = [o for o in orders if o[1] == 1]
    bids = [o for o in act if o[0]]
    asks = [o for o in act if not o[0]]
    bid = max([o[6] for o in bids], default=0)
    ask = min([o[6] for o in asks], default=2 ** 32 - 1)
    bv = sum(o[4] for o in bids)
    av = sum(o[4] for o in asks)
    blv, alv = [], []
    for i in range(10):
        p = (bid - i * tick) % 2 ** 32
        l = [o for o in bids if o[6] == p]
        blv.append((sum(o[4] for o in l), len(l)))
        p = (ask + i * tick) % 2 ** 32
        l = [o for o in asks if o[6] == p]
        alv.append((sum(o[4] for o in l), len(l)))
    return bid, ask, bv, av, blv, alv


for it in range(count):
    tick = rnd.choice([1, 1, 2, 3, 5])
    s = rnd.randrange(1 << 40)
    t0_env = rnd.randrange(1000)
    env = core.StepEnv(s, t0_env, tick, 1000)
    envn = core.StepEnvNumpy(s, 0, tick, 1000)
    centre = rnd.randrange(30, 200)
    steps = rnd.randrange(1, 5)
    # a fifth of the books are sparse and sit at the ends of the price range: bids at price 0 and a few ticks above,
    # asks at 2^32-1 and a few ticks below (when the tick divides 2^32-1), some of the orders with volume 0 (such an
    # order is accepted, stays active and is counted at its level); nothing crosses in these books
    sparse = rnd.random() < 0.2
    modified = set()          # orders of `env` whose volume was changed by a modification (not by trades)
    top = (2 ** 32 - 1) if (2 ** 32 - 1) % tick == 0 else None
    for st in range(steps):
        # every fourth step (after the first) is idle: nothing is submitted at all
        k = 0 if (st > 0 and rnd.random() < 0.25) else (rnd.randrange(1, 5) if sparse else rnd.randrange(2, 12))
        sides, vols, trs, prices = [], [], [], []
        for _ in range(k):
            bid = rnd.random() < 0.5
            # asymmetric books: bids cluster below, asks above, different volumes and counts per level
            off = rnd.randrange(0, 9)
            price = (centre - 1 - off if bid else centre + 1 + off + (off % 3)) * tick
            if rnd.random() < 0.15:
                price = (centre + (2 if bid else -2)) * tick          # crossing order: trades
            vol = rnd.randrange(1, 40) + (100 if bid else 0)
            if sparse:
                j = rnd.choice([0, 0, 1, 2, 11])
                price = j * tick if bid else ((top - j * tick) if top is not None else (10 ** 6 + j) * tick)
                if rnd.random() < 0.4:
                    vol = 0
            env.place_order(bid, vol, rnd.randrange(1000), price=price)
            sides.append(bid); vols.append(vol); trs.append(7); prices.append(price)
        if k:
            envn.submit_limit_orders((np.array(sides), np.array(vols, dtype=np.uint32), np.array(trs, dtype=np.uint32), np.array(prices, dtype=np.uint32)))
        if k and rnd.random() < 0.3 and env.get_orders():
            env.cancel_order(rnd.randrange(len(env.get_orders())))
        if sparse and rnd.random() < 0.5 and env.get_orders():
            mid_ = rnd.randrange(len(env.get_orders()))
            env.modify_order(mid_, new_vol=0)     # stays active with nothing left
            modified.add(mid_)
        env.step(); envn.step()
        states += 1
        for name, e, l1m, l2m in (("StepEnv", env, "level_1_data_array", "level_2_data_array"), ("StepEnvNumpy", envn, "level_1_data", "level_2_data")):
            orders = e.get_orders()
            bid, ask, bv, av, blv, alv = expected_from_orders(orders, tick)
            trades = e.get_trades()
            md = e.get_market_data()
            tv = int(md["trade_vol"][-1]) if len(md["trade_vol"]) else 0
            # the same quantity from the trade log: volume of the trades time-stamped inside the last step
            lo = (t0_env if name == "StepEnv" else 0) + st * 1000
            tv_log = sum(int(tr[3]) for tr in trades if lo <= int(tr[0]) < lo + 1000)
            if tv_log != tv:
                fails.append("%s: get_market_data['trade_vol'][-1] = %d but the trades logged in the last step sum to %d (%s seed=%d step=%d)" % (name, tv, tv_log, name, s, st))
            tv = tv_log
            # traded volume of the last step, from the trade log
            t_end = e.time if hasattr(e, "time") else None
            l1 = [int(x) for x in getattr(e, l1m)()]
            l2 = [int(x) for x in getattr(e, l2m)()]
            d1 = doc_l1(tv, bid, ask, bv, av, blv, alv)
            d2 = doc_l2(tv, bid, ask, bv, av, blv, alv)
            ctx = "%s seed=%d tick=%d step=%d" % (name, s, tick, st)
            if len(l1) != 9:
                fails.append("%s.%s has %d entries, documented 9 (%s)" % (name, l1m, len(l1), ctx))
            elif l1 != d1:
                k = [i for i in range(9) if l1[i] != d1[i]][0]
                fails.append("%s.%s[%d] = %d but the documentation assigns index %d the value %d (array %s, documented %s; %s)" % (name, l1m, k, l1[k], k, d1[k], l1, d1, ctx))
            if len(l2) != 45:
                fails.append("%s.%s has %d entries, documented 45 (%s)" % (name, l2m, len(l2), ctx))
            elif l2 != d2:
                k = [i for i in range(45) if l2[i] != d2[i]][0]
                fails.append("%s.%s[%d] = %d but the documentation assigns index %d the value %d (%s)" % (name, l2m, k, l2[k], k, d2[k], ctx))
            # market-data dictionary: exactly the documented keys, each bound to the matching series (checked on the last entry
            # against the live book and on the lengths)
            want = {"bid_price": bid, "ask_price": ask, "bid_vol": bv, "ask_vol": av, "trade_vol": tv}
            for i in range(10):
                want["bid_vol_%d" % i] = blv[i][0]; want["ask_vol_%d" % i] = alv[i][0]
                want["n_bid_%d" % i] = blv[i][1]; want["n_ask_%d" % i] = alv[i][1]
            if set(md.keys()) != set(want.keys()):
                fails.append("%s.get_market_data keys differ from the documented set: extra %s missing %s (%s)" % (name, sorted(set(md) - set(want)), sorted(set(want) - set(md)), ctx))
            else:
                for key, val in want.items():
                    if len(md[key]) != st + 1:
                        fails.append("%s.get_market_data['%s'] has %d entries after %d steps (%s)" % (name, key, len(md[key]), st + 1, ctx)); break
                    if int(md[key][-1]) != val:
                        fails.append("%s.get_market_data['%s'][-1] = %d but the live book gives %d (%s)" % (name, key, int(md[key][-1]), val, ctx)); break
            # per-step traded volume against the trade log
            if sum(t[3] for t in trades if t[0] >= 0) < tv:
                fails.append("%s: last traded volume %d exceeds the whole trade log (%s)" % (name, tv, ctx))
            # data-frame helpers: column k is named after tuple field k
            odf = dp.orders_to_dataframe(orders)
            ocols = ["side", "status", "arr_time", "end_time", "vol", "start_vol", "price", "trader_id", "order_id"]
            if odf.columns[:9] != ocols:
                fails.append("orders_to_dataframe columns %s, documented %s" % (odf.columns, ocols))
            else:
                # tuple field k must hold what column k is named after: cross-check with independent facts
                for j, o in enumerate(orders):
                    row = {c: odf[c][j] for c in ocols}
                    if row["order_id"] != j or row["side"] != ("bid" if o[0] else "ask") or row["start_vol"] < row["vol"] or \
                       row["status"] != ["new", "active", "filled", "cancelled", "rejected"][e.order_status(j) if hasattr(e, "order_status") else o[1]] or \
                       (row["status"] == "filled" and row["vol"] != 0) or (row["status"] in ("new", "active") and row["end_time"] != 2 ** 64 - 1) or \
                       (row["status"] == "active" and row["price"] % tick != 0):
                        fails.append("orders_to_dataframe row %d %s does not hold what its column names say (tuple %s; %s)" % (j, row, o, ctx)); break
                # volumes: start_vol - vol must equal the traded volume of the order in the log
                for j, o in enumerate(orders):
                    traded = sum(t[3] for t in trades if t[4] == j or t[5] == j)
                    if name == "StepEnv" and j in modified:
                        continue
                    if odf["start_vol"][j] - odf["vol"][j] != traded:
                        fails.append("orders_to_dataframe: start_vol - vol = %d for order %d but the trade log accounts for %d (columns mislabelled?) (%s)" % (odf["start_vol"][j] - odf["vol"][j], j, traded, ctx)); break
            tdf = dp.trades_to_dataframe(trades)
            tcols = ["time", "side", "price", "vol", "active_id", "passive_id"]
            if tdf.columns[:6] != tcols:
                fails.append("trades_to_dataframe columns %s, expected %s" % (tdf.columns, tcols))
            else:
                for j, t in enumerate(trades):
                    p = orders[tdf["passive_id"][j]]; a = orders[tdf["active_id"][j]]
                    if tdf["price"][j] != p[6] or tdf["side"][j] != ("bid" if p[0] else "ask") or a[0] == p[0] or tdf["vol"][j] < 1 or tdf["vol"][j] > p[5]:
                        fails.append("trades_to_dataframe row %d does not hold what its column names say (%s)" % (j, ctx)); break
            if len(samples) < 2:
                samples.append({"target": name, "level_1": l1, "documented": d1})
        if len(fails) > 5:
            break
    if len(fails) > 5:
        break

for f in fails[:6]:
    print("PYFAIL " + f)
print("PYSTATS " + json.dumps({"states": states, "targets": 2, "samples": samples}))
