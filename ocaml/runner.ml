(* runner: reads the protocol lines written by harness/drive on stdin, feeds
   them to the extracted Coq runner step (Model.rs_init / Model.rs_step) and
   prints one line per report:
     REP <script id> <op index> <report numbers>
   and a summary line per script:
     END <script id> <ops> <still valid 0/1>
   The only logic here is splitting lines into numbers and converting between
   decimal text and Coq's binary [N]. *)
module ZZ = Z   (* zarith; the extracted model defines its own module Z *)
open Model

let rec pos_of_int (i : int) : positive =
  if i = 1 then XH
  else if i land 1 = 0 then XO (pos_of_int (i lsr 1))
  else XI (pos_of_int (i lsr 1))

let rec pos_of_z (z : ZZ.t) : positive =
  if ZZ.equal z ZZ.one then XH
  else if ZZ.is_even z then XO (pos_of_z (ZZ.shift_right z 1))
  else XI (pos_of_z (ZZ.shift_right z 1))

let n_of_string (s : string) : n =
  match int_of_string_opt s with
  | Some 0 -> N0
  | Some i when i > 0 -> Npos (pos_of_int i)
  | _ -> let z = ZZ.of_string s in if ZZ.sign z = 0 then N0 else Npos (pos_of_z z)

let rec z_of_pos (p : positive) : ZZ.t =
  match p with
  | XH -> ZZ.one
  | XO q -> ZZ.shift_left (z_of_pos q) 1
  | XI q -> ZZ.succ (ZZ.shift_left (z_of_pos q) 1)

let string_of_n (x : n) : string =
  match x with N0 -> "0" | Npos p -> ZZ.to_string (z_of_pos p)

let rec nat_of_int (i : int) : nat = if i <= 0 then O else S (nat_of_int (i - 1))

let nums_of (s : string) : n list =
  List.filter_map (fun t -> if t = "" then None else Some (n_of_string t)) (String.split_on_char ' ' s)

let rest (l : string) : string = if String.length l > 2 then String.sub l 2 (String.length l - 2) else ""

let print_reports sid k reps =
  List.iter (fun r ->
    Printf.printf "REP %s %d %s\n" sid k
      (String.concat " " (List.map string_of_n (enc_report r)))) reps

type anystate = Book of rstate | Envs of estate

(* oracles handed to the agent model: the log-normal sample table written by the
   harness (T lines) and libm's tanh (the same function Rust's f64::tanh calls) *)
let ln_table : (string * string, n * n) Hashtbl.t = Hashtbl.create 4096
let lognormal (k : n) (pos : n) : (n * n) option =
  Hashtbl.find_opt ln_table (string_of_n k, string_of_n pos)

let z_of_n (x : n) : ZZ.t = match x with N0 -> ZZ.zero | Npos p -> z_of_pos p
let n_of_z (z : ZZ.t) : n = if ZZ.sign z = 0 then N0 else Npos (pos_of_z z)
let two64 = ZZ.shift_left ZZ.one 64
let tanh64 (bits : n) : n =
  let z = z_of_n bits in
  let i = if ZZ.geq z (ZZ.shift_left ZZ.one 63) then ZZ.to_int64 (ZZ.sub z two64) else ZZ.to_int64 z in
  let r = Int64.bits_of_float (Float.tanh (Int64.float_of_bits i)) in
  let zr = ZZ.of_int64 r in
  n_of_z (if ZZ.sign zr < 0 then ZZ.add zr two64 else zr)

let () =
  let st : anystate option ref = ref None in
  let sid = ref "" in
  let k = ref 0 in
  let pending_hdr : (string * n * n * bool * int) option ref = ref None in
  let pending_op : n list option ref = ref None in
  let pending_out : n list option ref = ref None in
  let scripts = ref 0 and ops = ref 0 and valid_ops = ref 0 in
  let flush_panic () =
    (* an R 9 line has no S line after it *)
    match !st, !pending_op, !pending_out with
    | Some (Book s), Some o, Some r ->
        let (s', reps) = rs_step s o r [] in
        print_reports !sid !k reps; st := Some (Book s'); pending_op := None; pending_out := None
    | Some (Envs s), Some o, Some r ->
        let (s', reps) = es_step_fn lognormal tanh64 s o r [] in
        print_reports !sid !k reps; st := Some (Envs s'); pending_op := None; pending_out := None
    | _ -> () in
  let pending_mhdr : (n * int * n * n * n * bool * n list) option ref = ref None in
  (try
    while true do
      let line = input_line stdin in
      if String.length line > 0 then
      match line.[0] with
      | 'B' ->
          (match String.split_on_char ' ' (rest line) with
           | [id; t0; tick; tr; l] ->
               sid := id; k := 0; st := None; pending_op := None; pending_out := None;
               pending_hdr := Some (id, n_of_string t0, n_of_string tick, tr = "1", int_of_string l)
           | _ -> Printf.printf "REP ? 0 0\n")
      | 'M' ->
          (match String.split_on_char ' ' (rest line) with
           | id :: kind :: l :: seed :: t0 :: step :: tr :: _a :: ticks ->
               sid := id; k := 0; st := None; pending_op := None; pending_out := None; pending_hdr := None;
               Hashtbl.reset ln_table;
               pending_mhdr := Some (n_of_string kind, int_of_string l, n_of_string seed, n_of_string t0,
                                     n_of_string step, tr = "1", List.map n_of_string (List.filter (fun x -> x <> "") ticks))
           | _ -> Printf.printf "REP ? 0 0\n")
      | 'F' -> Printf.printf "REP %s %d 6\n" !sid !k
      | 'G' ->
          (match !st with
           | Some (Envs s) ->
               (match es_add_agent s (nums_of (rest line)) with
                | Some s' -> st := Some (Envs s')
                | None -> Printf.printf "REP %s %d 0\n" !sid !k)
           | _ -> ())
      | 'T' ->
          (match String.split_on_char ' ' (rest line) with
           | [kk; pos; bits; used] -> Hashtbl.replace ln_table (kk, pos) (n_of_string bits, n_of_string used)
           | _ -> ())
      | 'S' when !pending_mhdr <> None ->
          let obs = nums_of (rest line) in
          (match !pending_mhdr with
           | Some (kind, l, seed, t0, step, tr, ticks) ->
               pending_mhdr := None;
               let (s, reps) = es_init kind (nat_of_int l) seed t0 step tr ticks obs in
               st := (match s with Some s -> Some (Envs s) | None -> None); print_reports !sid 0 reps
           | None -> ())
      | 'S' ->
          let obs = nums_of (rest line) in
          (match !pending_hdr with
           | Some (_, t0, tick, tr, l) ->
               pending_hdr := None;
               let (s, reps) = rs_init (nat_of_int l) t0 tick tr obs in
               st := (match s with Some s -> Some (Book s) | None -> None); print_reports !sid 0 reps
           | None ->
               (match !st, !pending_op, !pending_out with
                | Some (Book s), Some o, Some r ->
                    let (s', reps) = rs_step s o r obs in
                    incr ops; if rs_valid s' && not (rs_ended s') then incr valid_ops;
                    print_reports !sid !k reps; st := Some (Book s'); pending_op := None; pending_out := None
                | Some (Envs s), Some o, Some r ->
                    let (s', reps) = es_step_fn lognormal tanh64 s o r obs in
                    incr ops; if es_valid s' && not (es_ended s') then incr valid_ops;
                    print_reports !sid !k reps; st := Some (Envs s'); pending_op := None; pending_out := None
                | _ -> ()))
      | 'O' -> flush_panic (); incr k; pending_op := Some (nums_of (rest line))
      | 'R' -> pending_out := Some (nums_of (rest line))
      | 'E' ->
          flush_panic (); incr scripts;
          (match !st with
           | Some (Book s) -> Printf.printf "END %s %d %d\n" !sid !k (if rs_valid s then 1 else 0)
           | Some (Envs s) -> Printf.printf "END %s %d %d\n" !sid !k (if es_valid s then 1 else 0)
           | None -> Printf.printf "END %s %d 0\n" !sid !k)
      | _ -> ()
    done
  with End_of_file -> ());
  Printf.printf "SUMMARY scripts=%d ops=%d valid_ops=%d\n" !scripts !ops !valid_ops
